#!/usr/bin/env python3
"""API-surface audit: which functions / methods defined under <tree>/ahrs are never entered by any check's quick workload?

usage: apicov.py [Cxx ...]      (runs the quick checks with VERIF_APICOV=1 VERIF_NO_EVIDENCE=1, merges .work/apicov/*.json)
Output: seeded/../apicov.json and a table of public callables never entered.  Informational (not evidence, not a verdict):
it tells where a property-breaking change could hide from every workload."""
import ast
import glob
import json
import os
import subprocess
import sys

VERIF = os.path.dirname(os.path.dirname(os.path.abspath(__file__)))
TREE = os.environ.get("AHRS_TREE", "/repo")


def defined():
    out = {}
    for path in glob.glob(os.path.join(TREE, "ahrs", "**", "*.py"), recursive=True):
        rel = os.path.relpath(path, TREE)
        try:
            mod = ast.parse(open(path, encoding="utf-8").read())
        except Exception:
            continue

        def walk(node, prefix):
            for n in node.body:
                if isinstance(n, (ast.FunctionDef, ast.AsyncFunctionDef)):
                    out["%s:%s" % (rel, prefix + n.name)] = n.lineno
                elif isinstance(n, ast.ClassDef):
                    walk(n, prefix + n.name + ".")
        walk(mod, "")
    return out


def main():
    props = sys.argv[1:] or ["C%02d" % i for i in range(1, 21)]
    cov_dir = os.path.join(VERIF, ".work", "apicov")
    for f in glob.glob(os.path.join(cov_dir, "*.json")):
        os.remove(f)
    for p in props:
        subprocess.run([os.path.join(VERIF, "check"), p], env=dict(os.environ, VERIF_APICOV="1", VERIF_NO_EVIDENCE="1"), cwd=VERIF, capture_output=True, text=True)
    entered = {}
    options = {}
    for f in glob.glob(os.path.join(cov_dir, "opt-*.json")):
        for key, rec in json.load(open(f)).items():
            o = options.setdefault(key, {})
            for n, used in rec.items():
                o[n] = o.get(n, False) or used
    for f in glob.glob(os.path.join(cov_dir, "C*.json")):
        prop = os.path.basename(f).split("-")[0]
        for item in json.load(open(f)):
            rel, qual, _ = item.rsplit(":", 2)
            entered.setdefault("%s:%s" % (rel, qual), set()).add(prop)
    d = defined()
    never = sorted(k for k in d if k not in entered and not k.split(":")[1].split(".")[-1].startswith("__"))
    pub = [k for k in never if not any(part.startswith("_") for part in k.split(":")[1].split("."))]
    json.dump({"tree": TREE, "properties": props, "defined": len(d), "entered": len([k for k in d if k in entered]), "never_entered_public": pub,
               "never_entered_private": [k for k in never if k not in pub], "entered_by": {k: sorted(v) for k, v in sorted(entered.items()) if k in d}},
              open(os.path.join(VERIF, "apicov.json"), "w"), indent=1)
    print("%d functions defined, %d entered by the quick workloads of %s" % (len(d), len([k for k in d if k in entered]), ",".join(props) if len(props) < 20 else "all 20 checks"))
    print("public callables never entered:")
    for k in pub:
        print("  ", k)
    print("private / dunder-free helpers never entered:", len(never) - len(pub))
    unused = sorted("%s(%s=)" % (k, n) for k, rec in options.items() for n, used in rec.items() if not used and not n.startswith("**")
                    and not any(part.startswith("_") and not part.startswith("__init__") for part in k.split(":")[1].split(".")))
    print("parameters with a default that no workload ever sets to another value (%d):" % len(unused))
    for u in unused:
        print("  ", u)
    # keyword options read through **kwargs (kwargs.get('name') / kw.get / pop): which of them did no workload ever pass?
    import re
    seen_by_file = {}
    for k, rec in options.items():
        seen_by_file.setdefault(k.split(":")[0], set()).update(n[2:] for n in rec if n.startswith("**"))
    unread = []
    for path in glob.glob(os.path.join(TREE, "ahrs", "**", "*.py"), recursive=True):
        rel = os.path.relpath(path, TREE)
        names = set(re.findall(r"""(?:kwargs|kw)\.(?:get|pop)\(\s*['"](\w+)['"]""", open(path, encoding="utf-8").read()))
        for n in sorted(names - seen_by_file.get(rel, set())):
            unread.append("%s: %s=" % (rel, n))
    print("keyword options read from **kwargs that no workload ever passes (%d):" % len(unread))
    for u in unread:
        print("  ", u)
    direct = set()
    for f in glob.glob(os.path.join(cov_dir, "direct-*.json")):
        direct.update(json.load(open(f)))
    indirect = sorted(k for k in d if k in entered and k not in direct and not any(part.startswith("_") for part in k.split(":")[1].split(".")))
    print("public callables entered only from inside the library, never called by a workload itself (%d):" % len(indirect))
    for k in indirect:
        print("  ", k)
    d_ = json.load(open(os.path.join(VERIF, "apicov.json")))
    d_["entered_only_from_inside_the_library"] = indirect
    d_["kwargs_options_never_passed"] = unread
    d_["parameters_never_set"] = unused
    d_["keyword_options_seen"] = {k: sorted(n[2:] for n in rec if n.startswith("**")) for k, rec in options.items() if any(n.startswith("**") for n in rec)}
    json.dump(d_, open(os.path.join(VERIF, "apicov.json"), "w"), indent=1)


if __name__ == "__main__":
    main()
