"""Calibration aid for C05 (not a check): for each table row run many seeds over 3N samples and report
the worst settle index (first sample after which err stays <= tol) and the worst steady-state error."""
import sys, os, warnings
import numpy as np
sys.path.insert(0, os.environ.get("AHRS_TREE", "/repo")); sys.path.insert(0, "/verif")
warnings.simplefilter("ignore")
from vt import filt, gens
from vt.ref import quat as rq
from vt.props import C05
import ahrs
reg = filt.registry()
only = sys.argv[1] if len(sys.argv) > 1 else ""
nseeds = int(sys.argv[2]) if len(sys.argv) > 2 else 6
rng = np.random.default_rng(123)
for name, rows in C05.TABLE.items():
    if only and only not in name: continue
    cfg = reg[name]
    for (lab, kw, N, tol, tiers) in rows:
        worst_settle, worst_tail, fails = 0, 0.0, 0
        for e0d in ([175, 175, 170, 150, 120, 90, 30, 1]*8)[:nseeds]:
            dipd = float(rng.uniform(-70, 70)); dip = np.radians(dipd)
            inst = cfg.new(**filt.resolve_kw(cfg, dipd, kw)) if cfg.new else None
            g_ref, m_ref = cfg.refs(inst, dip)
            if m_ref is not None and min(rq.vangle(g_ref, m_ref), np.pi - rq.vangle(g_ref, m_ref)) < np.radians(10): continue
            NN = N
            if NN is None:
                rho = (1.0 + 2.0 * abs(np.cos(rq.vangle(g_ref, m_ref)))) / 3.0
                NN = int(min(60000, max(400, 3 * np.log(tol / (10 * np.pi)) / np.log(rho))))
            qt = gens.unit(rng); ax = gens.axis(rng)
            if cfg.kind == "imu":
                gh = g_ref / np.linalg.norm(g_ref); ax = ax - gh * (gh @ ax); ax /= np.linalg.norm(ax)
            d = rq.axang2q(ax, np.radians(e0d))
            q0 = rq.qnormalize(rq.qmul(d, qt) if cfg.conv == "T" else rq.qmul(qt, d))
            acc, mag = cfg.measurements(qt, g_ref, m_ref)
            n_tot = 3 * NN
            G_ = rng.standard_normal((n_tot, 3)) * gens.logu(rng, 1e-6, 1e-3)
            A = np.tile(acc, (n_tot, 1)); M = None if mag is None else np.tile(mag, (n_tot, 1))
            if cfg.name == "FKF":
                a0, m0 = cfg.measurements(q0, g_ref, m_ref); A[0] = a0; M[0] = m0
            try:
                Q = C05.run_filter(cfg, kw, q0, G_, A, M, dipd)
            except Exception as e:
                fails += 1; print("   EXC", name, lab, e0d, type(e).__name__, str(e)[:60]); continue
            idx = np.arange(0, n_tot, max(1, n_tot // 3000))
            err = np.array([cfg.tilt_error(Q[i], acc, g_ref) if cfg.kind == "imu" else rq.qang(Q[i], qt) for i in idx])
            bad = np.where(~(err <= tol))[0]
            settle = 0 if len(bad) == 0 else idx[min(bad[-1] + 1, len(idx) - 1)]
            tail = err[idx > 2 * NN].max()
            worst_settle = max(worst_settle, settle); worst_tail = max(worst_tail, tail)
            print("   %-22s %-12s e0=%5.1f dip=%5.1f N=%6d settle=%6d (%.2f N) tail=%.5f deg  err@N=%.4f deg" % (name, lab, e0d, dipd, NN, settle, settle / NN, np.degrees(tail), np.degrees(err[np.searchsorted(idx, NN)])), flush=True)
        print("%-22s %-12s N=%s tol=%.4f deg : worst settle=%d worst tail=%.5f deg (tol/tail=%.1f) fails=%d" % (name, lab, N, np.degrees(tol), worst_settle, np.degrees(worst_tail), tol / max(worst_tail, 1e-12), fails), flush=True)
