"""Calibration aid for C13: after a burst of L<=50 zeroed samples, how long until the faulted run is back within tol of the clean run?"""
import sys, os, warnings
import numpy as np
sys.path.insert(0, os.environ.get("AHRS_TREE", "/repo")); sys.path.insert(0, "/verif")
warnings.simplefilter("ignore")
from vt.props import C13
from vt.ref import quat as rq
import ahrs
rng = np.random.default_rng(7)
only = sys.argv[1] if len(sys.argv) > 1 else ""
for name, (sensors, build, K, K1, tol, state) in C13.FILTERS.items():
    tol = tol or 0.035
    if only and only not in name: continue
    worst_settle, worst_tail = 0, 0.0
    for rep in range(10):
        n = 3000
        g, a, m, dip = C13.trajectory(rng, n)
        mask = np.zeros(n, bool); st = 100; L = [50, 50, 20, 3, 50, 10, 50, 35, 50, 1][rep]; mask[st:st+L] = True
        sub = ["a", "am", "ga", "m", "gam", "a", "am", "a", "g", "a"][rep]
        sub = "".join(c for c in sub if c in sensors) or "a"
        gf, af, mf = g.copy(), a.copy(), m.copy()
        if "g" in sub: gf[mask] = 0
        if "a" in sub: af[mask] = 0
        if "m" in sub: mf[mask] = 0
        try:
            np.random.seed(1); Qc, _ = C13.run(name, g, a, m, dip)
            np.random.seed(1); Qf, _ = C13.run(name, gf, af, mf, dip)
        except Exception as e:
            print("  ", name, sub, L, "EXC", type(e).__name__, str(e)[:60]); continue
        Qc = np.asarray(Qc, float); Qf = np.asarray(Qf, float)
        if not np.all(np.isfinite(Qf)): print("  ", name, sub, L, "NaN"); continue
        err = np.array([C13.diff(name, Qf[t], Qc[t]) for t in range(n)])
        last = st + L - 1
        bad = np.where(err[last+1:] > tol / 5)[0]
        settle = 0 if len(bad) == 0 else bad[-1] + 1
        tail = err[last + 1500:].max()
        worst_settle = max(worst_settle, settle); worst_tail = max(worst_tail, tail)
        print("   %-24s %-4s L=%2d peak=%.3f deg settle(tol/5)=%5d tail=%.4f deg" % (name, sub, L, np.degrees(err[last+1:].max()), settle, np.degrees(tail)), flush=True)
    print("%-24s K=%d tol=%.2f deg: worst settle to tol/5 = %d, worst tail = %.4f deg" % (name, K, np.degrees(tol), worst_settle, np.degrees(worst_tail)), flush=True)
