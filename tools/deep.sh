#!/bin/sh
for s in 10; do
for id in C01 C02 C03 C04 C05 C06 C07 C08 C09 C10 C11 C12 C13 C14 C15 C16 C17 C18 C19 C20; do
  VERIF_SEED=$s VERIF_NO_EVIDENCE=1 ./check $id --tier thorough | grep -v "^KNOWN" | tail -4 | cut -c1-400
done; done
