#!/bin/sh
for s in 12; do
for id in C05 C13 C01 C03 C08 C04 C07 C09 C10 C11 C12 C19 C20 C06 C02 C14 C15 C16 C17 C18; do
  VERIF_SEED=$s VERIF_NO_EVIDENCE=1 ./check $id --tier thorough | grep -v "^KNOWN" | tail -4 | cut -c1-400
done; done
