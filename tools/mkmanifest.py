#!/usr/bin/env python3
"""Regenerates MANIFEST.json from the per-property table below and from which
vt/props/Cxx.py modules exist.  Run from /verif:  python3 tools/mkmanifest.py"""
import json
import os

HERE = os.path.dirname(os.path.dirname(os.path.abspath(__file__)))

T = {
 "C01": ("reference-model + algebraic-law monitors on 18 conversion/product/rotation routes",
         "Runtime monitoring: every generated (p,q,v) drives all public quaternion->matrix, product and vector-rotation routes of the real code; an independent Hamilton-product model and the group laws are the oracle. Held on N executions stratified over pure/real/axis-aligned/denormal/near-antipodal inputs; not a proof.",
         "NumPy arithmetic; vt/ref/quat.py reference model; inputs restricted to the generated regions", "5/C01"),
}

def main():
    checks, na = [], []
    ids = [json.loads(l)["id"] for l in open(os.path.join(HERE, "properties.jsonl"))]
    for pid in ids:
        have = os.path.exists(os.path.join(HERE, "vt", "props", pid + ".py"))
        if not have or pid not in T:
            na.append({"property_id": pid, "reason": "check not built yet in this revision (work in progress; the technique applies, see DESIGN.md section 5)"})
            continue
        tech, text, note, ref = T[pid][:4]
        level = T[pid][4] if len(T[pid]) > 4 else "exploration"
        checks.append({
            "property_id": pid,
            "quick_cmd": "./check %s --tier quick" % pid,
            "thorough_cmd": "./check %s --tier thorough" % pid,
            "evidence_file": "/verif/evidence/%s.json" % pid,
            "replay_cmd_template": "./check %s --replay {path}" % pid,
            "engine": "vt",
            "level_claimed": {"category": level, "text": text, "design_ref": "DESIGN.md section " + ref},
            "level_note": note,
            "technique": tech,
        })
    m = {
        "version": 1,
        "setup_cmd": "PYTHONPATH=/verif /venv/bin/python -m vt.setup",
        "hooks": {
            "guard": "AHRS_VERIF",
            "enable": "no source hooks: probes are attached from the harness by rebinding public callables (vt/probes.py); the checks export AHRS_VERIF=1 only for symmetry",
            "baseline_off_cmd": "cd /repo && /venv/bin/python -m pytest -ra -q -p no:cacheprovider --timeout=900 --continue-on-collection-errors",
            "source_commits": [],
            "add_only": True,
        },
        "engines": [{"name": "vt", "path": "/verif/vt", "serves_properties": [c["property_id"] for c in checks],
                     "kind_free_text": "runtime monitoring harness: probes on the real ahrs callables, reference-model / invariant / history monitors, seeded stratified workloads, shard runner with three-valued verdicts"}],
        "checks": checks,
        "not_applicable": na,
        "notes": "Exit codes: 0 held (possibly with KNOWN-FINDING lines), 1 violated (VIOLATION lines), 2 inconclusive (INCONCLUSIVE lines; never on the unchanged tree). AHRS_TREE selects the tree under test (default /repo, imported from its working tree).",
    }
    with open(os.path.join(HERE, "MANIFEST.json"), "w") as f:
        json.dump(m, f, indent=1)
    print("MANIFEST.json: %d checks, %d not_applicable" % (len(checks), len(na)))

if __name__ == "__main__":
    main()
