#!/usr/bin/env python3
"""Regenerates MANIFEST.json from the per-property table below and from which
vt/props/Cxx.py modules exist.  Run from /verif:  python3 tools/mkmanifest.py"""
import json
import os

HERE = os.path.dirname(os.path.dirname(os.path.abspath(__file__)))

T = {
 "C01": ("reference-model + algebraic-law monitors on 18 conversion/product/rotation routes",
         "Runtime monitoring: every generated (p,q,v) drives all public quaternion->matrix, product and vector-rotation routes of the real code; an independent Hamilton-product model and the group laws are the oracle. Held on N executions stratified over pure/real/axis-aligned/denormal/near-antipodal inputs; not a proof.",
         "NumPy arithmetic; vt/ref/quat.py reference model; inputs restricted to the generated regions", "5/C01"),
 "C02": ("reference-model monitor: R (Rodrigues) -> 7 methods x 4 entry points of the real code -> harness q->R model, stratified over SO(3)",
         "Runtime monitoring: rotation matrices are generated per region (four Shepperd pivot classes, negative trace, tiny / near-pi angles, exact half-turns, identity, isclose bands) and every method through every public entry point is executed; the returned quaternion must be real float64, unit, and reproduce R through an independent quaternion->matrix model (1e-12 for Shepperd/Bar-Itzhack everywhere, 1e-6 for the closed forms up to pi-1e-6).",
         "NumPy; Rodrigues formula and refR of vt/ref/quat.py; closed-form methods are not judged above pi-1e-6 as the property states", "5/C02"),
 "C09": ("algebraic-law monitor against an independent Hamilton product; scalar-last twin monitor",
         "Runtime monitoring: triples of versors and non-normalised quaternions (norms over 4 decades, incl. both sides of the is_versor tolerance) are pushed through product/*/@/q_prod, conjugate, inverse, mult_L/mult_R and the order='S' twins of the real classes; laws are checked against vt/ref/quat.py. The non-versor inverse defect is pinned by the repository tests and recorded as a known finding keyed by its mechanism.",
         "NumPy; reference Hamilton product; objects with order='S' passed as arguments are recorded, not judged", "5/C09"),
 "C10": ("round-trip monitors with conditioning-aware tolerances; reference = elementary matrices, Rodrigues, exponential map",
         "Runtime monitoring: rpy triples (incl. within 1e-6 of gimbal lock), axis-angle rotations (angles 0, 1e-9..pi-1e-6), exponents in [-3,3] and Euler sequences of length 1-3 (radians, degrees, angles down to 1e-9) are pushed through every public conversion of the real code and compared with independent models.",
         "NumPy; arccos-based formulas (DCM.to_axisangle, Quaternion.logarithm) are granted their documented first-order accuracy; exp() of real quaternions is a test-pinned known finding", "5/C10"),
 "C11": ("invariant monitors on constructed objects + rejection monitor (exception type must be ValueError/TypeError)",
         "Runtime monitoring: vectors with norms 1e-100..1e100, every DCM keyword route, sums/differences, random attitudes, rotate_by and averages (spread, clustered, weighted, spans) are constructed with the real classes and checked for real dtype, unit norm / proper rotation and direction; invalid inputs (zero, NaN, inf, wrong shapes; matrices >= 1e-4 from SO(3) by SVD distance) must be refused, matrices <= 1e-12 from SO(3) accepted.",
         "NumPy; SVD polar distance to SO(3); the band 1e-12..1e-4 is not judged; strings/booleans are recorded only (not listed by the property)", "5/C11"),
 "C12": ("reference model (great-arc geometry on S^3) + history checkers over all interior NaN runs and all sign-flip patterns",
         "Runtime monitoring: both slerp copies are run on endpoint pairs stratified around every branch (shortest-path flip, LERP threshold 0.9995 swept and bracketed, orthogonal, identical) and compared with the harness' great-arc interpolation (unit, end points, plane, constant speed, monotone, sign invariance); slerp_nan is run on trajectories with every interior NaN run for N<=10 and sampled multi-run patterns, remove_jumps/q_correct on every sign pattern for N<=8 and sampled ones to N=60.",
         "NumPy; reference slerp in the check module; LERP branch allowed Omega^3/20", "5/C12"),
 "C18": ("closed-form + invariance + triangle + mixed-type symmetry monitors on the seven metric functions (single and N-row), traced-memory monitor (tracemalloc) on a long N-row call",
         "Runtime monitoring: pairs at a generator-known relative angle t (1e-4..pi incl. exactly pi and pi/2, bands around removed shortcuts) are evaluated as-is, swapped, negated, left- and right-multiplied and as batches through the real metric functions and compared with the closed forms; random, close and collinear triples exercise the triangle inequality.",
         "NumPy; rotations built by vt/ref/quat.py; arccos-based metrics granted eps/t (and sqrt(eps) next to pi) accuracy", "5/C18"),
 "C07": ("differential monitor: N-row entry point vs the single-item entry point of the real code on every row (derived objects, methods in turn on one object, recordings with an unusable row), traced-memory monitor (tracemalloc) on a long array",
         "Runtime monitoring: for 50 operation pairs (QuaternionArray vs Quaternion incl. both storage orders and 7 from_DCM methods, N-by-3-by-3 hughes/chiaverini, q2R, rpy2q, am2angles, ned2enu, five metrics, every single-frame estimator x method x representation x frame) generated rows (half-turns, near-identity, near-pi, coordinate-plane axes, magnitudes over 5 decades) are run through both copies and compared row by row without sign freedom; one-row batch and one-sample constructor calls are compared with estimate() using the same options.",
         "NumPy; both sides are library code; closed-form from_DCM rows above pi-1e-6 and metric pairs below 1e-4 rad are outside C02/C18's domains and not paired", "5/C07"),
 "C04": ("reference-model monitor: generated true attitude -> noise-free measurements from the estimator's own references -> real estimator -> direction table oracle",
         "Runtime monitoring: 35 estimator routes (TRIAD, Davenport, QUEST, FLAE x3, OLEQ random start and injected fixed point, SAAM, FAMC, FQA, Tilt x4, AQUA x3, ecompass x6, am2DCM, am2q, am2angles, acc2q; NED/ENU) are run on exact images of their reference directions under attitudes in general position (all routes) and Haar-generic plus 41 named special poses (singularity-free class), dips +-80 deg, scales over 5 decades; the returned rotation must map references onto measurements within 1e-9 / 1e-7 rad.",
         "NumPy; frozen direction table (validated on the pinned tree against docstrings); OLEQ random-start inexactness is a known finding, its fixed point is checked by start injection", "5/C04"),
 "C05": ("bounded-progress monitor on recorded error trajectories of the real filters (per-configuration step bound N and tolerance from gain/geometry)",
         "Runtime monitoring: each recursive filter configuration (Madgwick, Mahony, EKF NED/ENU, UKF, AQUA incl. adaptive, ROLEQ NED/ENU, FKF, Complementary; IMU and MARG; default and non-default gains) is started 0.01-175 deg away from a random true attitude and fed exact measurements plus gyro noise; the error trajectory (geodesic angle or tilt) must be below tol at sample N, stay below it to 1.5 N and never end above the initial error. 'Eventually' is restated as this bounded progress; verdicts are in samples, never wall-clock.",
         "NumPy; frozen (N, tol) table with x2 / x5 margins over the calibrated envelope; direction table of vt/filt.py; UKF non-convergence is a known finding", "5/C05"),
 "C06": ("history checkers (batch vs stream, repeat, fresh process, per-instance sub-histories under random interleavings and under concurrent threads with injected yields) + shared-state snapshot monitor",
         "Runtime monitoring: for every recursive filter and architecture (16 streaming configurations incl. EKF with magnetometer and UKF, default and explicit parameters) a random history is run through the constructor and through update() sample by sample from the same initial attitude (equal to 1e-13), each repeated (bit-identical), some in a fresh interpreter with another hash seed; 2-4 instances of same/different classes are driven under random schedules and each instance's sub-history must be bit-identical to its isolated run; module globals, class attributes, function defaults and the global NumPy RNG are snapshotted around every case; 2-3 instances of each class run in concurrent threads (sys.settrace yield injection inside the library, 1 us switch interval) and must reproduce their isolated runs; a streamed recording must come back byte-identical.",
         "NumPy; histories up to 60 samples; the only permitted shared-state write is RNG consumption by OLEQ/ROLEQ's random start", "5/C06"),
 "C08": ("reference model (exponential map) + order-of-accuracy monitor + cross-filter dead-reckoning monitor + re-integration history check",
         "Runtime monitoring: constant rates (1e-2..10 rad/s, dt 1e-3..5e-2, up to 300 steps) through AngularRate.update and the batch constructor vs q0*exp(w n dt/2); series orders 0-6 vs the Taylor-remainder bound and monotone improvement; one dead-reckoning step with a null accelerometer through Madgwick/Mahony/AQUA updateIMU+updateMARG, EKF.f, ROLEQ.attitude_propagation, AngularRate order 1 vs the normalised first-order step in each filter's convention; rate histories recovered by angular_velocities() and re-integrated.",
         "NumPy; exponential map of vt/ref/quat.py; Taylor remainder with factor 4; recovered rates are first order (x^3/12 budget)", "5/C08"),
 "C03": ("invariant monitors on every estimator's output (shape, real dtype, finite, unit norm / proper rotation) + online monitor on each update/estimate step through probes",
         "Runtime monitoring: 46 estimator configurations (all 19 exported classes x architectures x frames x representations) are constructed over histories of 2-80 samples of six kinds (random inconsistent over 5 decades, consistent, moving, exactly level / inverted / vertical) with default and randomly drawn valid parameters (gains, 1 Hz-2 kHz, noise variances over 4 decades, dips, weights); every output row and every intermediate step is checked.",
         "NumPy; validity only; pose singularities of published closed forms and UKF's LinAlgError are known findings keyed by (estimator, clause, pose kind)", "5/C03"),
 "C13": ("fault injection (zeroed sensor rows) + twin-history checker (faulted vs fault-free run of the real filter), batch and streamed",
         "Fault enumeration by runtime monitoring: for 16 recursive filter configurations every (sensor subset, start, length<=3) dropout inside a 12-sample window is enumerated exhaustively (2904 faults) and long/repeated bursts are sampled; each faulted history is run through the constructor and, sample by sample, through update() with refused samples skipped; the run must refuse with ValueError or emit only finite unit quaternions, keep its carried state (P, bias, gains) finite, and K samples after the fault be back within tolerance of its fault-free twin (K from C05's bound when the first sample is lost).",
         "NumPy; slowly rotating consistent trajectories with gyro bias/noise; recovery bounds calibrated on the pinned tree; Fourati's recovery time is unbounded by design (not judged); UKF instability is a known finding", "5/C13", "fault_enumeration"),
 "C14": ("reference-model monitor: independent degree-12 Schmidt spherical-harmonic synthesis of the shipped .COF files",
         "Runtime monitoring: (latitude, longitude, height, date) points stratified over the equator, both poles and their neighbourhood, +-55 deg, longitudes 0/+-180, heights -1..850 km and the 0.1-year grid 2015.0-2030.0 with both sides of each epoch boundary are evaluated on a long-lived object, a fresh object and through the constructor, and compared (1e-6 nT) with a synthesis that shares only the coefficient files with the library (Legendre derivatives via numpy.polynomial, analytic d/dphi', P/cos cancelled at the poles), which also decides which file must be used.",
         "NumPy; vt/ref/wmm.py (validated against an 80-bit evaluation: 2e-11 nT); 5e-3 nT strictly between 89 deg and a pole", "5/C14"),
 "C15": ("query-history checker against a pure-function sequential specification + element-consistency monitors + concurrent-thread twin with injected yields",
         "Runtime monitoring: random sequences of 3-12 queries on one WMM object (constructor, explicit dates on and off the 0.1-year grid in all three epochs, date=None, both frames, special places) are compared answer by answer with the pure function f(date, place, frame) computed by the independent synthesis; constructor vs method for the same float / datetime.date; H, F, I, D, GV recomputed from the reported X, Y, Z; +180 vs -180; poles; equator and prime meridian through both entry points.",
         "NumPy; vt/ref/wmm.py; date=None means the date the object already holds", "5/C15"),
 "C16": ("closed-form identity monitor (defining identities, Pizzetti, Somigliana end values, symmetry, monotone in height, rotating-sphere limit)",
         "Runtime monitoring: reference ellipsoids drawn over a in 1e5..1e8 m, f in {0, 1e-6..0.2}, GM over 10 decades, m up to 0.05 (both rotation senses), the nine bodies of the constants table and the WGS class are constructed with the real classes; derived constants, Pizzetti's theorem, gamma(0)=ge, gamma(+-90)=gp, positivity, latitude symmetry, strict decrease in height up to 0.5 % of a and closeness to the rotating-sphere values for f <= 1e-3 (incl. f = 0) are checked at fixed and random latitudes.",
         "NumPy; closed forms evaluated by the harness; 0 < f < 1e-6 is outside the property's domain (q0 cancellation), not generated", "5/C16"),
 "C17": ("round-trip and isometry monitors on the frame transformations (geodetic/ECEF/ENU/AER/DCA/NED, LLF matrices)",
         "Runtime monitoring: geodetic points stratified over the equator and its 1e-12..1e-5 deg neighbourhood, both poles and their neighbourhood, longitudes 0/+-90/+-180 and heights -10..1000 km are converted geodetic->ECEF (vs an independent closed form)->geodetic and back; random local origins, offsets to 1e6 m and angles over +-360 deg exercise ECEF<->ENU (identity, isometry, origin->0), ENU<->AER (degrees and radians), ENU<->DCA, NED<->ENU (vector and rows) and the LLF rotation matrices (transpose, orthogonal, det +1).",
         "NumPy; latitude tolerance 1e-7 deg / height 1e-4 m as allowed by the documented 1e-8 rad stopping rule; longitude judged at the poles too (1e-9 deg: x and y still carry it there)", "5/C17"),
 "C19": ("argument-bytes monitor + repeatability monitor over a registry of ~370 public call specifications (seven argument forms), same-object and changed-in-place twins, result-buffer overwrite, keyword-call twin, concurrent-thread twin with injected yields, write-protect re-run as localiser",
         "Runtime monitoring: every free function of orientation/quaternion/frames/mathfuncs/metrics, every class constructor with its array-valued keywords (q0, P, b0, w0, weights, magnetic_ref, mag_ref, v1, v2, noises), every update/estimate method and Sensors(quaternions=) is called with non-normalised / degree-valued arguments as fresh arrays, as strided views of larger buffers and with one array aliased to two parameters; argument (and buffer) bytes are compared before/after, the call is repeated on the same objects and on pristine copies in the same layout, and a mutation is re-run write-protected to report the source line.",
         "NumPy; only documented array parameters; explicitly in-place operations are exempt; random functions re-seeded", "5/C19"),
 "C20": ("reference-model monitor (ground truth -> expected sensor rows), gyro re-integration history check, chi-square noise-level monitor",
         "Runtime monitoring: Sensors(num_samples=N) and Sensors(quaternions=Q) are generated for N in 10..600, sampling 20-400 Hz, degrees/radians, normalised magnetometer, default/custom reference vectors and every zero / non-zero / default combination of the three noise levels; rotations, quaternions and angular positions must describe the same attitudes, noise-free accelerometer and magnetometer rows must equal R_i^T ref exactly, gyroscopes minus the reported bias must equal the true rate exactly and re-integrate to the trajectory within the exact first-order budget, and with noise the empirical sigma and mean offset must match the reported attributes (6-sigma bounds).",
         "NumPy; module-level GENERATOR re-seeded per case; gyr_noise scaled to the data units as documented", "5/C20"),
}

def main():
    checks, na = [], []
    ids = [json.loads(l)["id"] for l in open(os.path.join(HERE, "properties.jsonl"))]
    for pid in ids:
        have = os.path.exists(os.path.join(HERE, "vt", "props", pid + ".py"))
        if not have or pid not in T:
            na.append({"property_id": pid, "reason": "check not built yet in this revision (work in progress; the technique applies, see DESIGN.md section 5)"})
            continue
        tech, text, note, ref = T[pid][:4]
        level = T[pid][4] if len(T[pid]) > 4 else "exploration"
        checks.append({
            "property_id": pid,
            "quick_cmd": "./check %s --tier quick" % pid,
            "thorough_cmd": "./check %s --tier thorough" % pid,
            "evidence_file": "/verif/evidence/%s.json" % pid,
            "replay_cmd_template": "./check %s --replay {path}" % pid,
            "engine": "vt",
            "level_claimed": {"category": level, "text": text, "design_ref": "DESIGN.md section " + ref},
            "level_note": note,
            "technique": tech,
        })
    m = {
        "version": 1,
        "setup_cmd": "PYTHONPATH=/verif /venv/bin/python -m vt.setup",
        "hooks": {
            "guard": "AHRS_VERIF",
            "enable": "no source hooks: probes are attached from the harness by rebinding public callables (vt/probes.py); the checks export AHRS_VERIF=1 only for symmetry",
            "baseline_off_cmd": "cd /repo && /venv/bin/python -m pytest -ra -q -p no:cacheprovider --timeout=900 --continue-on-collection-errors",
            "source_commits": [],
            "add_only": True,
        },
        "engines": [{"name": "vt", "path": "/verif/vt", "serves_properties": [c["property_id"] for c in checks],
                     "kind_free_text": "runtime monitoring harness: probes on the real ahrs callables, reference-model / invariant / history monitors, seeded stratified workloads, shard runner with three-valued verdicts"}],
        "checks": checks,
        "not_applicable": na,
        "notes": "Exit codes: 0 held (possibly with KNOWN-FINDING lines), 1 violated (VIOLATION lines), 2 inconclusive (INCONCLUSIVE lines; never on the unchanged tree). AHRS_TREE selects the tree under test (default /repo, imported from its working tree). Every call of the code under test runs under a wall-clock watchdog whose firing decides nothing: the call is repeated under a statement counter and only more than 3e8 statements inside the tree (a logical bound) is reported, as the exception NonTermination. VERIF_SEED, VERIF_TIER, VERIF_DEPTH (thorough depth) and VERIF_NO_EVIDENCE=1 (evidence and replays diverted to .work/) are honoured.",
    }
    with open(os.path.join(HERE, "MANIFEST.json"), "w") as f:
        json.dump(m, f, indent=1)
    print("MANIFEST.json: %d checks, %d not_applicable" % (len(checks), len(na)))

if __name__ == "__main__":
    main()
