#!/usr/bin/env python3
"""Exact textual replacement that preserves the file's line endings (CRLF files stay CRLF).
usage: redit.py FILE  (reads OLD and NEW from a JSON object on stdin: {"old":..., "new":...})"""
import json, sys
path = sys.argv[1]
d = json.load(sys.stdin)
s = open(path, newline='').read()
crlf = '\r\n' in s
old, new = d['old'], d['new']
if crlf:
    old, new = old.replace('\r\n', '\n').replace('\n', '\r\n'), new.replace('\r\n', '\n').replace('\n', '\r\n')
n = s.count(old)
if n != 1:
    sys.exit("pattern occurs %d times in %s" % (n, path))
open(path, 'w', newline='').write(s.replace(old, new))
print("edited", path, "(CRLF)" if crlf else "(LF)")
