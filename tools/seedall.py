#!/usr/bin/env python3
"""Re-verify every filed seeded change (seeded/<name>/patch.diff + demo.py + meta.json) against /repo's HEAD and the
current checks: patch applies, suite passes with it, demo fails with it, the property's quick check reports a violation.
usage: seedall.py [--jobs 6] [name ...]   -> table on stdout, seeded/status.json"""
import concurrent.futures as cf
import json
import os
import subprocess
import sys

VERIF = os.path.dirname(os.path.dirname(os.path.abspath(__file__)))


def one(name):
    src = os.path.join(VERIF, "seeded", name)
    meta = json.load(open(os.path.join(src, "meta.json")))
    if meta.get("status") == "superseded":
        return name, {"status": "superseded"}
    prop = name.split("-")[-1]
    env = dict(os.environ, SEED_FILE="0")
    extra = [p for p in meta.get("also_check", []) if p != prop]      # other properties' checks known to catch this change
    r = subprocess.run([sys.executable, os.path.join(VERIF, "tools", "seedverify.py"), src, name, prop] + extra, capture_output=True, text=True, env=env)
    try:
        d = json.loads(r.stdout)
    except Exception:
        return name, {"status": "error", "tail": (r.stdout + r.stderr)[-300:]}
    return name, {"status": "caught" if d.get("valid_seed") and d.get("caught_by") else ("missed" if d.get("valid_seed") else "invalid"),
                  "patch_applies": d.get("patch_applies"), "suite": d.get("suite_passes_with_change"), "demo_changed_exit": d.get("demo_on_changed_exit"),
                  "caught_by": d.get("caught_by"), "first": (d.get("checks", {}).get(prop, {}) or {}).get("first", "")[:200]}


def main():
    args = sys.argv[1:]
    jobs = 6
    if args[:1] == ["--jobs"]:
        jobs, args = int(args[1]), args[2:]
    names = args or sorted(n for n in os.listdir(os.path.join(VERIF, "seeded")) if os.path.isfile(os.path.join(VERIF, "seeded", n, "patch.diff")))
    res = {}
    if args:        # partial run: keep the other entries of the last full run
        try:
            res = json.load(open(os.path.join(VERIF, "seeded", "status.json")))
        except Exception:
            res = {}
    with cf.ThreadPoolExecutor(jobs) as ex:
        for name, r in ex.map(one, names):
            res[name] = r
            print("%-12s %-10s %s" % (name, r["status"], r.get("caught_by") or r.get("tail", "")), flush=True)
    json.dump(res, open(os.path.join(VERIF, "seeded", "status.json"), "w"), indent=1)
    bad = [n for n, r in res.items() if r["status"] not in ("caught", "superseded")]
    print("%d seeded changes, not caught/invalid: %s" % (len(res), bad))
    return 1 if bad else 0


if __name__ == "__main__":
    sys.exit(main())
