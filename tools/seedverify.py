#!/usr/bin/env python3
"""Verify a seeded property-breaking change produced by a sub-agent and file it under /verif/seeded/<name>/.

usage: seedverify.py <src_dir with patch.diff, demo.py, meta.json> <name> <property> [more properties...]

Steps (all in a scratch worktree of /repo's HEAD under $TMPDIR, removed afterwards):
  1. demo.py passes on the unchanged tree;
  2. the patch applies; the repository test-suite still passes with it;
  3. demo.py fails with it;
  4. the property's quick check (AHRS_TREE=<scratch>) is run and its verdict recorded.
Nothing is ever applied to /repo itself."""
import json
import os
import shutil
import subprocess
import sys
import tempfile

VERIF = os.path.dirname(os.path.dirname(os.path.abspath(__file__)))


def sh(cmd, **kw):
    return subprocess.run(cmd, capture_output=True, text=True, **kw)


def main():
    src, name, props = sys.argv[1], sys.argv[2], sys.argv[3:]
    tier = os.environ.get("SEED_TIER", "quick")
    wt = tempfile.mkdtemp(prefix="vt-seed-")
    os.rmdir(wt)
    res = {"name": name, "properties": props}
    try:
        r = sh(["git", "-C", "/repo", "worktree", "add", "--detach", wt, "HEAD"])
        assert r.returncode == 0, r.stderr
        env = dict(os.environ, PYTHONPATH=wt, PYTHONDONTWRITEBYTECODE="1")
        demo = os.path.join(src, "demo.py")
        r0 = sh(["/venv/bin/python", demo], env=env, cwd=src, timeout=900)
        res["demo_on_original_exit"] = r0.returncode
        r = sh(["git", "-C", wt, "apply", os.path.join(src, "patch.diff")])
        res["patch_applies"] = r.returncode == 0
        if r.returncode != 0:
            res["apply_error"] = r.stderr[-500:]
        else:
            t = sh(["/venv/bin/python", "-m", "pytest", "-q", "-p", "no:cacheprovider", "tests"], env=env, cwd=wt, timeout=1800)
            res["suite_passes_with_change"] = t.returncode == 0
            res["suite_tail"] = t.stdout.strip().splitlines()[-1:] if t.stdout else []
            r1 = sh(["/venv/bin/python", demo], env=env, cwd=src, timeout=900)
            res["demo_on_changed_exit"] = r1.returncode
            res["demo_on_changed_tail"] = (r1.stdout + r1.stderr).strip().splitlines()[-3:]
            res["checks"] = {}
            for p in props:
                env2 = dict(os.environ, AHRS_TREE=wt, VERIF_NO_EVIDENCE="1")
                c = sh([os.path.join(VERIF, "check"), p, "--tier", tier], env=env2, cwd=VERIF, timeout=7200)
                lines = [ln for ln in c.stdout.splitlines() if ln.startswith("VIOLATION")]
                res["checks"][p] = {"tier": tier, "exit": c.returncode, "violation_lines": len(lines), "first": lines[0][:400] if lines else c.stdout.strip()[-300:]}
        res["valid_seed"] = bool(res.get("demo_on_original_exit") == 0 and res.get("patch_applies") and res.get("suite_passes_with_change") and res.get("demo_on_changed_exit", 0) != 0)
        res["caught_by"] = [p for p, c in res.get("checks", {}).items() if c["exit"] == 1 and c["violation_lines"] > 0]
    finally:
        sh(["git", "-C", "/repo", "worktree", "remove", "--force", wt])
        shutil.rmtree(wt, ignore_errors=True)
    print(json.dumps(res, indent=1))
    if res.get("valid_seed") and os.environ.get("SEED_FILE", "1") == "1":
        dst = os.path.join(VERIF, "seeded", name)
        os.makedirs(dst, exist_ok=True)
        shutil.copy(os.path.join(src, "patch.diff"), dst)
        shutil.copy(os.path.join(src, "demo.py"), dst)
        meta = {}
        try:
            meta = json.load(open(os.path.join(src, "meta.json")))
        except Exception:
            pass
        meta["verification"] = res
        json.dump(meta, open(os.path.join(dst, "meta.json"), "w"), indent=1)
    return 0


if __name__ == "__main__":
    sys.exit(main())
