"""Core data types of the monitoring framework: cases, violations, the clause
recorder every oracle reports through, bit-exact (de)serialisation of cases
and the known-finding matcher.  Nothing in here imports ahrs."""
import fnmatch
import hashlib
import json
import math
import os

import numpy as np

VERIF = os.path.dirname(os.path.dirname(os.path.abspath(__file__)))


# --------------------------------------------------------------------------
# bit-exact JSON encoding
def enc(x):
    if isinstance(x, np.ndarray):
        d = {"__nd__": x.dtype.str, "shape": list(x.shape),
             "hex": np.ascontiguousarray(x).tobytes().hex()}
        if x.size <= 24 and x.dtype.kind in "fiu":
            d["approx"] = [float(v) if np.isfinite(v) else str(v) for v in x.ravel().tolist()]
        return d
    if isinstance(x, (np.floating,)):
        return enc(float(x))
    if isinstance(x, (np.integer,)):
        return int(x)
    if isinstance(x, (np.bool_,)):
        return bool(x)
    if isinstance(x, float):
        if math.isfinite(x):
            return x
        return {"__f__": repr(x)}
    if isinstance(x, (int, str, bool)) or x is None:
        return x
    if isinstance(x, tuple):
        return {"__t__": [enc(v) for v in x]}
    if isinstance(x, list):
        return [enc(v) for v in x]
    if isinstance(x, dict):
        return {str(k): enc(v) for k, v in x.items()}
    if isinstance(x, complex):
        return {"__c__": [x.real, x.imag]}
    return {"__repr__": repr(x)[:200]}


def dec(x):
    if isinstance(x, dict):
        if "__nd__" in x:
            return np.frombuffer(bytes.fromhex(x["hex"]), dtype=np.dtype(x["__nd__"])).reshape(x["shape"]).copy()
        if "__f__" in x:
            return float(x["__f__"])
        if "__t__" in x:
            return tuple(dec(v) for v in x["__t__"])
        if "__c__" in x:
            return complex(*x["__c__"])
        if "__repr__" in x:
            return x["__repr__"]
        return {k: dec(v) for k, v in x.items()}
    if isinstance(x, list):
        return [dec(v) for v in x]
    return x


def brief(x, maxn=12):
    """Human-readable rendering for evidence samples."""
    if isinstance(x, np.ndarray):
        if x.size <= maxn:
            return x.tolist() if x.dtype.kind != "c" else [str(v) for v in x.ravel().tolist()]
        return {"shape": list(x.shape), "dtype": str(x.dtype), "head": x.ravel()[:6].tolist()}
    if isinstance(x, (np.floating, np.integer, np.bool_)):
        return x.item()
    if isinstance(x, dict):
        return {str(k): brief(v, maxn) for k, v in x.items()}
    if isinstance(x, (list, tuple)):
        return [brief(v, maxn) for v in x][:maxn]
    if isinstance(x, float) and not math.isfinite(x):
        return repr(x)
    if isinstance(x, (int, float, str, bool)) or x is None:
        return x
    return repr(x)[:120]


# --------------------------------------------------------------------------
class Case:
    __slots__ = ("route", "region", "p")

    def __init__(self, route, region, **p):
        self.route = route
        self.region = region
        self.p = p

    def digest(self):
        h = hashlib.sha1()
        h.update(self.route.encode())
        h.update(json.dumps(enc(self.p), sort_keys=True).encode())
        return h.hexdigest()[:16]

    def to_json(self):
        return {"route": self.route, "region": self.region, "p": enc(self.p)}

    @staticmethod
    def from_json(d):
        return Case(d["route"], d["region"], **dec(d["p"]))


class Viol:
    __slots__ = ("route", "clause", "region", "residual", "tol", "detail", "case")

    def __init__(self, route, clause, region, residual, tol, detail, case=None):
        self.route, self.clause, self.region = route, clause, region
        self.residual, self.tol, self.detail, self.case = residual, tol, detail, case

    def key(self):
        return (self.route, self.clause, self.region)

    def to_json(self):
        return {"route": self.route, "clause": self.clause, "region": self.region,
                "residual": enc(self.residual), "tol": enc(self.tol), "detail": brief(self.detail)}


class Outcome:
    """Result of calling the real code: either a value or an exception."""
    __slots__ = ("ok", "value", "exc", "where")

    def __init__(self, ok, value=None, exc=None, where=None):
        self.ok, self.value, self.exc, self.where = ok, value, exc, where

    @property
    def exc_name(self):
        return type(self.exc).__name__ if self.exc is not None else None


class NonTermination(Exception):
    """A call executed more statements inside the tree under test than any terminating call of this library comes near (logical bound, not a clock)."""


class _Watchdog(BaseException):
    pass


WATCHDOG_S = float(os.environ.get("VERIF_CALL_WATCHDOG", "30" if os.environ.get("VERIF_TIER", "quick") == "quick" else "120"))       # generous wall-clock watchdog per call: its firing decides nothing by itself
STEP_BUDGET = int(float(os.environ.get("VERIF_STEP_BUDGET", "3e8")))   # statements inside the tree (the longest legitimate call, 46 000 samples streamed by hand through Madgwick.updateMARG with Quaternion-typed attitudes, executes ~3.2e7)
_depth = [0]
WATCHDOG_STATS = {"fired": 0, "non_terminating": 0}


def _guarded(fn, a, k):
    """fn(*a, **k) under a wall-clock watchdog; if it fires, the call is repeated under a statement counter and judged by the logical budget only."""
    import signal
    import sys
    import threading
    if _depth[0] > 0 or threading.current_thread() is not threading.main_thread() or not hasattr(signal, "setitimer"):
        return fn(*a, **k)

    def on_alarm(signum, frame):
        raise _Watchdog()
    old = signal.signal(signal.SIGALRM, on_alarm)
    _depth[0] += 1
    try:
        signal.setitimer(signal.ITIMER_REAL, globals()["WATCHDOG_S"])
        try:
            return fn(*a, **k)
        finally:
            signal.setitimer(signal.ITIMER_REAL, 0.0)
    except _Watchdog:
        WATCHDOG_STATS["fired"] += 1
        root = os.path.realpath(os.environ.get("AHRS_TREE", "/repo"))
        n = [0]

        def line_tracer(frame, event, arg):
            if event == "line":
                n[0] += 1
                if n[0] > globals()["STEP_BUDGET"]:
                    raise NonTermination("more than %d statements executed inside the library by one call (and no result after %g s before that)" % (globals()["STEP_BUDGET"], globals()["WATCHDOG_S"]))
            return line_tracer

        def tracer(frame, event, arg):
            return line_tracer if frame.f_code.co_filename.startswith(root) else None
        sys.settrace(tracer)
        try:
            return fn(*a, **k)
        except NonTermination:
            WATCHDOG_STATS["non_terminating"] += 1
            # the verdict of this run is settled; spend less on every further call that hangs the same way
            globals()["WATCHDOG_S"], globals()["STEP_BUDGET"] = min(WATCHDOG_S, 3.0), min(STEP_BUDGET, 10_000_000)
            raise
        finally:
            sys.settrace(None)
    finally:
        _depth[0] -= 1
        signal.signal(signal.SIGALRM, old)


def call(fn, *a, **k):
    """Run the code under test; exceptions become Outcomes with the innermost
    ahrs frame (file:line function) attached.  A call that does not return is cut off by a logical statement budget (see _guarded)."""
    import warnings
    try:
        with warnings.catch_warnings():
            warnings.simplefilter("ignore")
            with np.errstate(all="ignore"):
                return Outcome(True, _guarded(fn, a, k))
    except Exception as e:  # noqa: BLE001 - the code under test may raise anything
        where = None
        tb = e.__traceback__
        while tb is not None:
            fn_ = tb.tb_frame.f_code.co_filename
            if os.sep + "ahrs" + os.sep in fn_:
                where = "%s:%d %s" % (os.path.basename(fn_), tb.tb_lineno, tb.tb_frame.f_code.co_name)
            tb = tb.tb_next
        return Outcome(False, None, e, where)


class Ctx:
    """Clause recorder.  Every oracle statement goes through le()/ok() so the
    evidence can show per clause: evaluations, worst residual/tolerance."""

    def __init__(self):
        self.clauses = {}     # clause -> [n, worst_ratio, worst_resid, tol_at_worst]
        self.viols = []
        self.case = None
        self.notes = {}       # free counters (observed-outside-domain etc.)
        self.route_evals = {}
        self.route_worst = {}
        self.region_override = None

    def begin(self, case):
        self.case = case
        self.region_override = None
        try:        # how this case spells the case-insensitive option strings of the filter registry
            from . import filt
            filt.SPELL_K = int(case.digest(), 16) % 5
        except Exception:
            pass

    def note(self, key, n=1):
        self.notes[key] = self.notes.get(key, 0) + n

    def _rec(self, clause, resid, tol, route=None):
        c = self.clauses.setdefault(clause, [0, 0.0, 0.0, tol])
        c[0] += 1
        r = route or self.case.route
        self.route_evals[r] = self.route_evals.get(r, 0) + 1
        ratio = (resid / tol) if tol > 0 else (0.0 if resid == 0 else float("inf"))
        if not (ratio <= self.route_worst.get(r, 0.0)):
            self.route_worst[r] = ratio if ratio == ratio else float("inf")
        if not (ratio <= c[1]):  # also catches nan
            c[1], c[2], c[3] = (ratio if ratio == ratio else float("inf")), resid, tol

    def le(self, clause, resid, tol, detail=None, region=None, route=None):
        """Numeric clause: holds iff resid <= tol (NaN fails)."""
        try:
            resid = float(resid)
        except (TypeError, ValueError):
            resid = float("nan")
        tol = float(tol)
        self._rec(clause, resid if resid == resid else float("inf"), tol, route)
        if resid <= tol:
            return True
        self.viols.append(Viol(route or self.case.route, clause,
                               region or self.region_override or self.case.region,
                               resid, tol, detail, self.case))
        return False

    def ok(self, clause, cond, detail=None, region=None, route=None):
        """Boolean clause."""
        self._rec(clause, 0.0 if cond else 1.0, 0.5, route)
        if cond:
            return True
        self.viols.append(Viol(route or self.case.route, clause,
                               region or self.region_override or self.case.region,
                               1.0, 0.0, detail, self.case))
        return False

    def returned(self, out, clause="no-exception", allow=(), region=None, route=None):
        """The call must not raise (unless the exception type is in allow)."""
        if out.ok:
            self._rec(clause, 0.0, 0.5, route)
            return True
        if isinstance(out.exc, tuple(allow)) if allow else False:
            self.note("allowed-exception:" + out.exc_name)
            return False
        self._rec(clause, 1.0, 0.5, route)
        self.viols.append(Viol(route or self.case.route, clause + ":" + out.exc_name,
                               region or self.region_override or self.case.region, 1.0, 0.0,
                               {"exc": "%s: %s" % (out.exc_name, str(out.exc)[:160]), "where": out.where},
                               self.case))
        return False


# --------------------------------------------------------------------------
# known findings
def load_known(path=None):
    path = path or os.path.join(VERIF, "known_findings.json")
    if not os.path.exists(path):
        return []
    with open(path) as f:
        d = json.load(f)
    out = []
    for e in d.get("findings", []):
        for k in ("property", "status", "what"):
            if k not in e:
                raise ValueError("known_findings.json: entry without %r: %r" % (k, e))
        if e["status"] not in ("known", "fixed"):
            raise ValueError("known_findings.json: bad status in %r" % (e,))
        if e["status"] == "known":
            for k in ("route", "clause", "region"):
                if k not in e:
                    raise ValueError("known_findings.json: known entry needs %r: %r" % (k, e))
        out.append(e)
    return out


def match_known(known, prop, viol):
    """Return the 'known' entry that lists this violation's mechanism, or None.
    Matching is by (route, clause, region) patterns only - never by values."""
    for e in known:
        if e["status"] != "known" or e["property"] != prop:
            continue
        if (fnmatch.fnmatchcase(viol.route, e["route"]) and fnmatch.fnmatchcase(viol.clause, e["clause"])
                and fnmatch.fnmatchcase(viol.region, e["region"])):
            return e
    return None
