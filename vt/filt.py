"""Registry of the recursive filters of ahrs.filters: how to run each one in
batch, how to stream it sample by sample, which way its quaternion points
(conv 'T': measurement = R(q)^T ref; conv 'R': measurement = R(q) ref) and
which reference directions it senses.  Used by C03, C05, C06, C08 and C13."""
import numpy as np

from .ref import quat as rq

G = np.array([0.0, 0.0, 1.0])


def north_x(dip):
    return np.array([np.cos(dip), 0.0, np.sin(dip)])


def north_y(dip):
    return np.array([0.0, np.cos(dip), np.sin(dip)])


class Cfg:
    """One filter configuration.

    batch(gyr, acc, mag, q0, **kw)   -> (N,4) quaternions (real code, constructor path)
    new(**kw)                        -> fresh instance without data
    step(inst, q, g, a, m)           -> next quaternion (real code, update path)
    refs(inst, dip)                  -> (g_ref, m_ref) unit reference directions this filter senses
    """

    def __init__(self, name, kind, conv, batch, new, step, refs, q0_honoured=True, defaults=None, streams=True):
        self.name, self.kind, self.conv = name, kind, conv
        self.batch, self.new, self.step, self.refs = batch, new, step, refs
        self.q0_honoured, self.defaults, self.streams = q0_honoured, defaults or {}, streams

    def measurements(self, q_true, g_ref, m_ref, sa=9.81, sm=50.0):
        R = rq.refR(q_true)
        M = R.T if self.conv == "T" else R
        acc = M @ (g_ref / np.linalg.norm(g_ref)) * sa
        mag = None if (m_ref is None or self.kind == "imu") else M @ (m_ref / np.linalg.norm(m_ref)) * sm
        return acc, mag

    def tilt_error(self, q, acc, g_ref):
        R = rq.refR(np.asarray(q, float) / np.linalg.norm(q))
        p = (R.T if self.conv == "T" else R) @ g_ref
        return rq.vangle(p, acc)


SPELL_K = 0        # set per case by vt.run (from the case digest): how this case spells the frame names (compared case-insensitively by EKF and ROLEQ)


def sp(word):
    from . import gens
    return gens.spell(word, SPELL_K)


def registry():
    import ahrs
    F = ahrs.filters

    def kw_q0(q0):
        return {} if q0 is None else {"q0": np.array(q0, float)}

    cfgs = []

    def add(*a, **k):
        cfgs.append(Cfg(*a, **k))

    # ---- Madgwick
    add("Madgwick/IMU", "imu", "T",
        lambda g, a, m, q0=None, **kw: F.Madgwick(g, a, **kw_q0(q0), **kw).Q,
        lambda **kw: F.Madgwick(**kw), lambda f, q, g, a, m, **k: f.updateIMU(q, g, a, **k),
        lambda f, dip: (G, None))
    add("Madgwick/MARG", "marg", "T",
        lambda g, a, m, q0=None, **kw: F.Madgwick(g, a, m, **kw).Q,
        lambda **kw: F.Madgwick(**kw), lambda f, q, g, a, m, **k: f.updateMARG(q, g, a, m, **k),
        lambda f, dip: (G, north_x(dip)), q0_honoured=False)
    # ---- Mahony
    add("Mahony/IMU", "imu", "T",
        lambda g, a, m, q0=None, **kw: F.Mahony(g, a, **kw_q0(q0), **kw).Q,
        lambda **kw: F.Mahony(**kw), lambda f, q, g, a, m, **k: f.updateIMU(q, g, a, **k),
        lambda f, dip: (G, None))
    add("Mahony/MARG", "marg", "T",
        lambda g, a, m, q0=None, **kw: F.Mahony(g, a, m, **kw_q0(q0), **kw).Q,
        lambda **kw: F.Mahony(**kw), lambda f, q, g, a, m, **k: f.updateMARG(q, g, a, m, **k),
        lambda f, dip: (G, north_y(dip)))
    # ---- EKF
    for fr in ("NED", "ENU"):
        add("EKF/IMU/" + fr, "imu", "T",
            lambda g, a, m, q0=None, fr=fr, **kw: F.EKF(g, a, frame=sp(fr), **kw_q0(q0), **kw).Q,
            lambda fr=fr, **kw: F.EKF(frame=sp(fr), **kw), lambda f, q, g, a, m, **k: f.update(q, g, a, **k),
            lambda f, dip: (np.array(f.a_ref, float), None))
        add("EKF/MARG/" + fr, "marg", "T",
            lambda g, a, m, q0=None, fr=fr, **kw: F.EKF(g, a, m, frame=sp(fr), **kw_q0(q0), **kw).Q,
            lambda fr=fr, **kw: F.EKF(frame=sp(fr), **kw), lambda f, q, g, a, m, **k: f.update(q, g, a, m, **k),
            lambda f, dip: (np.array(f.a_ref, float), np.array(f.m_ref, float)), defaults={"magnetic_ref": "dip_deg"})
    # ---- UKF
    add("UKF", "imu", "T",
        lambda g, a, m, q0=None, **kw: F.UKF(g, a, **kw_q0(q0), **kw).Q,
        lambda **kw: F.UKF(**kw), lambda f, q, g, a, m, **k: f.update(q, g, a, **k),
        lambda f, dip: (G, None))
    # ---- AQUA
    for adaptive in (False, True):
        suf = "/adaptive" if adaptive else ""
        add("AQUA/IMU" + suf, "imu", "R",
            lambda g, a, m, q0=None, adaptive=adaptive, **kw: F.AQUA(a, gyr=g, adaptive=adaptive, **kw_q0(q0), **kw).Q,
            lambda adaptive=adaptive, **kw: F.AQUA(adaptive=adaptive, **kw), lambda f, q, g, a, m, **k: f.updateIMU(q, g, a, **k),
            lambda f, dip: (G, None))
        add("AQUA/MARG" + suf, "marg", "R",
            lambda g, a, m, q0=None, adaptive=adaptive, **kw: F.AQUA(a, m, g, adaptive=adaptive, **kw_q0(q0), **kw).Q,
            lambda adaptive=adaptive, **kw: F.AQUA(adaptive=adaptive, **kw), lambda f, q, g, a, m, **k: f.updateMARG(q, g, a, m, **k),
            lambda f, dip: (G, north_x(dip)))
    # ---- Fourati
    add("Fourati", "marg", "T",
        lambda g, a, m, q0=None, **kw: F.Fourati(g, a, m, **kw).Q,
        lambda **kw: F.Fourati(**kw), lambda f, q, g, a, m, **k: f.update(q, g, a, m, **k),
        lambda f, dip: (G, north_x(dip)), q0_honoured=False, defaults={"magnetic_dip": "dip_deg"})
    # ---- ROLEQ
    for fr in ("NED", "ENU"):
        add("ROLEQ/" + fr, "marg", "T",
            lambda g, a, m, q0=None, fr=fr, **kw: F.ROLEQ(g, a, m, frame=sp(fr), **kw_q0(q0), **kw).Q,
            lambda fr=fr, **kw: F.ROLEQ(frame=sp(fr), **kw), lambda f, q, g, a, m, **k: f.update(q, g, a, m, **k),
            lambda f, dip: (np.array(f.a_ref, float), np.array(f.m_ref, float)), defaults={"magnetic_ref": "dip_deg"})
    # ---- FKF (batch only)
    add("FKF", "marg", "T",
        lambda g, a, m, q0=None, **kw: F.FKF(g, a, m, **kw).Q,
        None, None, lambda f, dip: (G, north_x(dip)), q0_honoured=False, streams=False)
    # ---- Complementary (batch only; initial attitude through w0 = roll-pitch-yaw)
    add("Complementary/IMU", "imu", "T",
        lambda g, a, m, q0=None, **kw: F.Complementary(g, a, **kw).Q,
        None, None, lambda f, dip: (G, None), q0_honoured=False, streams=False)
    add("Complementary/MARG", "marg", "T",
        lambda g, a, m, q0=None, **kw: F.Complementary(g, a, m, **kw).Q,
        None, None, lambda f, dip: (G, north_x(dip)), q0_honoured=False, streams=False)
    return {c.name: c for c in cfgs}


# option arrays a caller defines once and hands to every filter it builds (markers "shared:<name>" in a kwargs table resolve to these very objects)
_PRISTINE = {"zeros3": np.zeros(3), "eye4": np.identity(4), "noises": np.array([0.3 ** 2, 0.5 ** 2, 0.8 ** 2]), "ones2": np.ones(2)}
POOL = {k: v.copy() for k, v in _PRISTINE.items()}


def pool_changed():
    """names of pooled option arrays that no longer hold what the caller put in them; restores them"""
    bad = [k for k in POOL if not np.array_equal(POOL[k], _PRISTINE[k])]
    for k in POOL:
        POOL[k][...] = _PRISTINE[k]
    return bad


def resolve_kw(cfg, dip_deg, extra=None):
    kw = {}
    for k, v in cfg.defaults.items():
        kw[k] = float(dip_deg) if v == "dip_deg" else v
    kw.update(extra or {})
    d = np.radians(float(dip_deg))
    for k, v in list(kw.items()):       # markers: the magnetic reference given as a full field vector (micro-tesla, not a unit vector)
        if isinstance(v, str) and v == "ref_vector_ned":
            kw[k] = 48.3 * np.array([np.cos(d), 0.0, np.sin(d)])
        elif isinstance(v, str) and v == "ref_vector_enu":
            kw[k] = 48.3 * np.array([0.0, np.cos(d), -np.sin(d)])
        elif isinstance(v, str) and v.startswith("shared:"):
            kw[k] = POOL[v[7:]]
    return kw


def stream(cfg, inst, q0, G_, A, M, dt=None, feed_raw=False, state_form="array"):
    """Feed samples 1..N-1 one at a time through the update method, starting from q0 (= row 0); dt, when given, is passed to every call.
    feed_raw: hand the object update() returned straight back as the next a-priori attitude (q = f.update(q, ...)), instead of a plain array."""
    Q = [np.array(q0, float)]
    k = {} if dt is None else {"dt": dt}
    prev = Q[-1]
    if state_form == "Quaternion":       # the attitude kept by the caller as the library's own Quaternion object: the first one built by hand, then whatever update() returned
        import ahrs
        prev, feed_raw = ahrs.Quaternion(Q[-1].copy()), True
    for t in range(1, len(G_)):
        if state_form == "list":
            prev, feed_raw = [float(x) for x in Q[-1]], True
        elif state_form == "Quaternion" and not (type(prev).__name__ == "Quaternion"):
            import ahrs
            prev = ahrs.Quaternion(np.array(prev, float))
        prev = cfg.step(inst, prev if feed_raw else Q[-1], G_[t], A[t], None if M is None else M[t], **k)
        Q.append(np.array(prev, dtype=float))
    return np.array(Q)
