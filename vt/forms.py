"""Argument forms: the same numeric values handed over in another container or element type.

The library's argument checks (`_assert_numerical_iterable`) accept lists, tuples and integer arrays wherever they
accept float64 arrays, so a property quantified over "all quaternions / vectors / matrices" also covers the ones a
caller writes as `[0, 1, 0, 0]` or `np.eye(3, dtype=int)`.  `variants(x)` lists the exact alternative forms of an
array; `invariant(...)` runs a callable with one argument replaced by each form and compares the result with the
float64 result.  A form the callable refuses or crashes on is recorded, not judged (rejecting a container type is a
clear refusal); a form it accepts must give the same answer."""
import numpy as np

from .core import call


def integral(x):
    x = np.asarray(x)
    return bool(x.size and x.dtype.kind == "f" and np.all(np.isfinite(x)) and np.all(x == np.round(x)) and np.abs(x).max() < 2 ** 53)


def variants(x, lists=True, float32=False, objects=False, layouts=False):
    x = np.asarray(x)
    out = []
    if layouts and x.dtype == np.float64 and x.size:      # the same float64 values in a read-only array and in a strided view of a larger buffer
        ro = x.copy()
        ro.setflags(write=False)
        out.append(("read-only array", ro))
        big = np.full(x.shape[:-1] + (x.shape[-1] * 2,), 4.75) if x.ndim else None
        if big is not None:
            big[..., ::2] = x
            out.append(("strided view", big[..., ::2]))
    if objects:            # the library's own array classes holding exactly these values, handed over where an array is expected
        import ahrs
        from ahrs.common.dcm import DCM
        try:
            if x.shape == (4,) and np.any(x):
                out.append(("Quaternion object", ahrs.Quaternion(x.copy(), versor=False)))
                out.append(("Quaternion object derived by arithmetic", -ahrs.Quaternion(-x, versor=False)))       # the same values, not a freshly constructed object
            elif x.ndim == 2 and x.shape[1] == 4 and np.all(np.any(x != 0, axis=1)):
                out.append(("QuaternionArray object", ahrs.QuaternionArray(x.copy(), versors=False)))
                out.append(("QuaternionArray object derived by slicing", ahrs.QuaternionArray(np.vstack([x, x[:1]]), versors=False)[:len(x)]))
            elif x.shape == (3, 3) and abs(np.linalg.det(x) - 1) < 1e-9 and np.abs(x @ x.T - np.eye(3)).max() < 1e-9:
                out.append(("DCM object", DCM(x.copy())))
        except Exception:      # noqa: BLE001 - the class refused these values: no such form
            pass
    if lists:
        out.append(("list", x.tolist()))
        if x.ndim == 1:
            out.append(("tuple", tuple(x.tolist())))
    if integral(x):
        xi = np.round(x).astype(np.int64)
        out.append(("int64", xi))
        if np.abs(xi).max() < 2 ** 31:
            out.append(("int32", xi.astype(np.int32)))
        if np.abs(xi).max() < 2 ** 15:          # raw counts of a 16-bit converter
            out.append(("int16", xi.astype(np.int16)))
        if lists:
            out.append(("int-list", xi.tolist()))
    # float32 is off by default: a computation carried out in single precision legitimately differs by ~1e-7 x conditioning
    if float32 and x.dtype == np.float64 and x.size and np.array_equal(x.astype(np.float32).astype(np.float64), x):
        out.append(("float32", x.astype(np.float32)))
    return out


def flat(r):
    if isinstance(r, (tuple, list)):
        return np.concatenate([flat(v) for v in r]) if len(r) else np.zeros(0)
    return np.ravel(np.asarray(r, dtype=float))


def invariant(ctx, route, fn, args, which=None, tol=1e-12, lists=True, clause="the same values in another argument form (list / tuple / integer) give the same result",
              region=None, skip=(), objects=False, attitude=False, layouts=False):
    """attitude=True: results are attitudes - a quaternion and its negative, angles differing by 2 pi are the same answer (a whole-number input has no
    negative zero, so an atan2-based estimator may land on the other side of its +-pi branch cut)."""
    """fn(*args) with float64 arrays is the base; every exact variant of every array argument in `which` is tried."""
    base = call(fn, *[a.copy() if isinstance(a, np.ndarray) else a for a in args])
    if not base.ok:
        return 0
    try:
        b = flat(base.value)
    except Exception:      # noqa: BLE001 - non-numeric result: nothing to compare
        return 0
    n = 0
    scale = max(1.0, float(np.nanmax(np.abs(b))) if b.size else 1.0)
    for i, a in enumerate(args):
        if not isinstance(a, np.ndarray) or (which is not None and i not in which):
            continue
        for lab, v in variants(a, lists=lists, objects=objects, layouts=layouts):
            if lab in skip:
                continue
            alt = list(a2.copy() if isinstance(a2, np.ndarray) else a2 for a2 in args)
            alt[i] = v
            snap = np.array(np.asarray(v), float).tobytes() if lab.endswith("object") else None
            out = call(fn, *alt)
            if snap is not None and out.ok:
                ctx.ok("an ahrs object handed over as an argument is left unchanged", np.array(np.asarray(v), float).tobytes() == snap and (not hasattr(v, "A") or np.array(v.A, float).tobytes() == snap),
                       {"form": lab, "argument": i}, route=route, region=region)
            if not out.ok:
                if lab in ("read-only array", "strided view") and ("read-only" in str(out.exc) or "not contiguous" in str(out.exc)):
                    # failing BECAUSE the argument cannot be written to / is not contiguous means the function writes into (or re-interprets) the caller's memory
                    ctx.ok("a read-only or strided float64 argument is processed like any other array", False, {"form": lab, "argument": i, "exc": "%s: %s" % (out.exc_name, str(out.exc)[:100])},
                           route=route, region=region)
                else:
                    ctx.note("form %s refused/crashed with %s (recorded, not judged)" % (lab, out.exc_name))
                continue
            try:
                r = flat(out.value)
            except Exception:      # noqa: BLE001
                ctx.ok(clause, False, {"form": lab, "argument": i, "why": "non-numeric result"}, route=route, region=region)
                continue
            n += 1
            tol_eff = tol if lab != "float32" else max(tol, 1e-6)
            if r.shape != b.shape:
                ctx.ok(clause, False, {"form": lab, "argument": i, "shape": list(r.shape), "expected_shape": list(b.shape)}, route=route, region=region)
                continue
            both_nan = np.isnan(r) & np.isnan(b)
            d = np.where(both_nan, 0.0, np.abs(r - b))
            if attitude and r.size % 4 == 0 and r.size:
                rr, bb_ = r.reshape(-1, 4), b.reshape(-1, 4)
                d = np.minimum(np.abs(rr - bb_).max(axis=1), np.abs(rr + bb_).max(axis=1))
                same_nan = np.isnan(rr).any(axis=1) & np.all(np.isnan(rr) == np.isnan(bb_), axis=1)      # a row that is NaN in the same places in both forms: equal behaviour
                with np.errstate(all="ignore"):
                    rest = np.nan_to_num(np.fmin(np.nanmax(np.abs(np.where(np.isnan(rr), 0.0, rr) - np.where(np.isnan(bb_), 0.0, bb_)), axis=1),
                                                 np.nanmax(np.abs(np.where(np.isnan(rr), 0.0, rr) + np.where(np.isnan(bb_), 0.0, bb_)), axis=1)))
                d = np.where(same_nan, rest, d)
            elif attitude and r.size == 3:
                d = np.minimum(d, np.abs((r - b + np.pi) % (2 * np.pi) - np.pi))
            resid = float(np.nanmax(d)) / scale if d.size else 0.0
            if np.isnan(d).any():
                resid = float("inf")
            ctx.le(clause, resid, tol_eff, {"form": lab, "argument": i, "got": r if r.size <= 12 else None, "expected": b if b.size <= 12 else None}, route=route, region=region)
    return n
