"""Seeded workload generators.  Plain ndarrays only - never ahrs objects."""
import numpy as np

from .ref import quat as rq


def depth(tier):
    """Thorough-tier depth factor: the module's THOROUGH_DEPTH (exported by the runner as VERIF_DEPTH) unless the caller set
    VERIF_DEPTH itself (e.g. VERIF_DEPTH=1 for the base thorough budget; values below 1 are raised to 1 so that region quotas stay reachable)."""
    import os
    return 1.0 if tier == "quick" else max(1.0, float(os.environ.get("VERIF_DEPTH", "1")))


def reps(n, tier):
    return max(1, int(round(n * depth(tier))))


def budget(base, tier, nshards, mult=16):
    """Cases for this shard: `base` in total for quick, base*mult*depth for thorough."""
    total = base * (1 if tier == "quick" else mult * depth(tier))
    return max(1, int(np.ceil(total / nshards)))


def unit(rng, n=None, dim=4):
    if n is None:
        v = rng.standard_normal(dim)
        return v / np.linalg.norm(v)
    v = rng.standard_normal((n, dim))
    return v / np.linalg.norm(v, axis=1)[:, None]


def axis(rng):
    return unit(rng, dim=3)


def logu(rng, lo, hi):
    return float(10.0 ** rng.uniform(np.log10(lo), np.log10(hi)))


ZERO_COMP_AXES = np.array([[1, 1, 0], [1, -1, 0], [0, 1, -1], [1, 0, 1], [-1, 0, 1], [0, 1, 1.0]])
AXIS_ALIGNED = np.vstack([np.eye(3), -np.eye(3)])

ROT_REGIONS = ["generic", "tiny", "small", "nearpi", "nearpi_close", "half_axis", "half_oblique", "half_zero_comp",
               "identity", "coordplane"]


def rot_axang(rng, region):
    """(axis, angle) for a rotation in the named region."""
    if region == "generic":
        return axis(rng), float(rng.uniform(-np.pi, np.pi))
    if region == "tiny":
        return axis(rng), logu(rng, 1e-12, 1e-3)
    if region == "small":
        return axis(rng), logu(rng, 1e-3, 1e-1)
    if region == "nearpi":
        return axis(rng), float(np.pi - logu(rng, 1e-6, 1e-1))
    if region == "nearpi_close":
        return axis(rng), float(np.pi - logu(rng, 1e-12, 1e-6))
    if region == "half_axis":
        return AXIS_ALIGNED[rng.integers(6)].copy(), float(np.pi)
    if region == "half_oblique":
        return axis(rng), float(np.pi)
    if region == "half_zero_comp":
        a = ZERO_COMP_AXES[rng.integers(len(ZERO_COMP_AXES))]
        return a / np.linalg.norm(a), float(np.pi)
    if region == "identity":
        return axis(rng), 0.0
    if region == "coordplane":  # axis in a coordinate plane, any angle: a quaternion component is exactly 0
        a = axis(rng)
        a[rng.integers(3)] = 0.0
        return a / np.linalg.norm(a), float(rng.uniform(0.05, np.pi - 0.05))
    raise KeyError(region)


def quat_in(rng, region):
    ax, ang = rot_axang(rng, region)
    if region.startswith("half"):
        return np.r_[0.0, ax]
    if region == "identity":
        return np.array([1.0, 0, 0, 0])
    return rq.axang2q(ax, ang)


UQ_REGIONS = ["generic", "pure", "real", "axis_aligned", "denormal", "tiny_angle", "near_pi", "octahedral"]


def unit_quat(rng, region):
    if region == "generic":
        return unit(rng)
    if region == "pure":
        return np.r_[0.0, axis(rng)]
    if region == "real":
        return np.array([float(rng.choice([-1.0, 1.0])), 0, 0, 0])
    if region == "axis_aligned":
        q = np.zeros(4)
        q[rng.integers(4)] = float(rng.choice([-1.0, 1.0]))
        return q
    if region == "octahedral":
        # the 48 unit quaternions of the cube's symmetries (quarter, half and third turns about its axes): products of two of them hit every exact
        # coincidence - scalar part exactly 0, components exactly equal, exact half turns out of two quarter turns
        kind = int(rng.integers(3))
        if kind == 0:
            q = np.zeros(4)
            q[rng.integers(4)] = 1.0
        elif kind == 1:
            q = np.zeros(4)
            i, j = rng.choice(4, 2, replace=False)
            q[i], q[j] = 1.0, float(rng.choice([-1.0, 1.0]))
            q /= np.sqrt(2.0)
        else:
            q = rng.choice([-0.5, 0.5], 4)
        return q * float(rng.choice([-1.0, 1.0]))
    if region == "denormal":
        q = unit(rng)
        k = rng.integers(4)
        q[k] = float(rng.choice([5e-324, 1e-310, -1e-315, 1e-200]))
        return q / np.linalg.norm(q)
    if region == "tiny_angle":
        return rq.axang2q(axis(rng), logu(rng, 1e-12, 1e-4)) * float(rng.choice([-1.0, 1.0]))
    if region == "near_pi":
        return rq.axang2q(axis(rng), np.pi - logu(rng, 1e-12, 1e-3))
    raise KeyError(region)


def vec3(rng, lo=1e-3, hi=1e3):
    return axis(rng) * logu(rng, lo, hi)


def general_position(rng):
    """C04's 'general position' attitude quaternion."""
    c3 = np.cos(np.radians(3.0))
    while True:
        q = unit(rng)
        if np.abs(q).min() < 0.05:
            continue
        if 2 * np.arccos(min(1.0, abs(q[0]))) > np.pi - 0.1:
            continue
        R = rq.refR(q)
        if max(abs(R[2, 2]), abs(R[2, 0]), abs(R[0, 2])) > c3:
            continue
        return q


def special_poses():
    """Named canonical attitudes (as quaternions): level x headings, inverted,
    vertical axes, half-turns, identity."""
    out = []
    z = [0, 0, 1.0]
    for psi in np.linspace(-np.pi, np.pi, 13):
        out.append(("level psi=%.3f" % psi, rq.axang2q(z, psi)))
    for psi in np.linspace(-np.pi, np.pi, 7):
        out.append(("inverted psi=%.3f" % psi, rq.qmul(rq.axang2q(z, psi), rq.axang2q([1, 0, 0], np.pi))))
    for ax in ([1, 0, 0], [0, 1, 0]):
        for s in (1, -1):
            for psi in (0, 0.7, -2.1):
                out.append(("vertical ax=%s s=%d psi=%.1f" % (ax, s, psi),
                            rq.qmul(rq.axang2q(z, psi), rq.axang2q(ax, s * np.pi / 2))))
    for ax in ([1, 0, 0], [0, 1, 0], [0, 0, 1], [1, 1, 0], [1, 0, 1], [0, 1, 1], [1, 1, 1], [1, -2, 3]):
        out.append(("half-turn %s" % (ax,), rq.axang2q(np.array(ax, float), np.pi)))
    out.append(("identity", np.array([1.0, 0, 0, 0])))
    return out


def spell(word, k):
    """a case variant of an option string the library compares case-insensitively (method names, frames)"""
    return [word, word.upper(), word.capitalize(), word.lower(), word.swapcase()][int(k) % 5]


def numtype(value, k):
    """The same option value as the number types a caller's code produces: a Python int, or the NumPy integer that np.arange / rng.integers /
    rng.choice hand out (1 is 1 whichever of them says it)."""
    if isinstance(value, bool) or not isinstance(value, int):
        return value
    return [int, np.int64, int, np.int32, np.intp, np.uint8][k % 6](value)
