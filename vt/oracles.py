"""Small reusable oracle clauses (invariant monitors on values crossing the API)."""
import numpy as np

from .ref import quat as rq


def as_real_array(ctx, val, shape=None, route=None, what="result"):
    """Clause group 'real finite array of the right shape'.  Returns a plain
    float ndarray, or None if a clause failed."""
    try:
        a = np.asarray(val)
    except Exception:
        ctx.ok(what + " is an array", False, {"type": type(val).__name__}, route=route)
        return None
    if a.dtype == object:
        ctx.ok(what + " is numeric", False, {"dtype": "object", "repr": repr(val)[:200]}, route=route)
        return None
    if not ctx.ok(what + " is real (not complex)", not np.iscomplexobj(a), {"dtype": str(a.dtype)}, route=route):
        return None
    if shape is not None:
        if not ctx.ok(what + " has expected shape", tuple(a.shape) == tuple(shape),
                      {"got": list(a.shape), "expected": list(shape)}, route=route):
            return None
    a = np.array(a, dtype=float)
    if not ctx.ok(what + " is finite", bool(np.all(np.isfinite(a))), {"value": a if a.size < 20 else a.shape}, route=route):
        return None
    return a


def unit_quat(ctx, q, tol=1e-12, route=None, what="quaternion"):
    q = np.asarray(q, dtype=float)
    n = np.linalg.norm(q, axis=-1)
    return ctx.le(what + " has unit norm", float(np.max(np.abs(n - 1.0))), tol, {"norm": n if np.ndim(n) == 0 else n[:5]}, route=route)


def proper_rotation(ctx, R, tol=1e-12, route=None, what="matrix"):
    R = np.asarray(R, dtype=float)
    if R.ndim == 2:
        return ctx.le(what + " is a proper rotation (RR^T=I, det=+1)", rq.so3_defect(R), tol, None, route=route)
    d = max(rq.so3_defect(r) for r in R)
    return ctx.le(what + " is a proper rotation (RR^T=I, det=+1)", d, tol, None, route=route)
