"""Probes: observe the real code without editing it.

attach(module, qualname) replaces a callable at every place it is bound: the
defining module attribute, every `from x import f` alias in any loaded ahrs.*
module, and (for methods) the class attribute - so batch constructors that
call self.update*() internally are observed step by step.  Each probe counts
calls and feeds subscribed monitors.  Reach counters use sys.monitoring LINE
events restricted to the code objects of the probed functions."""
import functools
import importlib
import sys
import types


class Probes:
    def __init__(self):
        self._counts = {}
        self._pre = {}
        self._post = {}
        self._codes = {}      # name -> code object
        self._hit = {}
        self._attached = {}   # name -> original
        self._tool = None

    # ------------------------------------------------------------------
    def subscribe(self, name, pre=None, post=None):
        if pre is not None:
            self._pre.setdefault(name, []).append(pre)
        if post is not None:
            self._post.setdefault(name, []).append(post)

    def counts(self):
        return dict(self._counts)

    def count(self, name):
        return self._counts.get(name, 0)

    def attach(self, modname, qualname, name=None):
        name = name or (modname.split(".")[-1] + "." + qualname)
        if name in self._attached:
            return name
        mod = importlib.import_module(modname)
        parts = qualname.split(".")
        self._counts.setdefault(name, 0)
        if len(parts) == 1:
            orig = getattr(mod, parts[0])
            wrapper = self._wrap(name, orig)
            for m in list(sys.modules.values()):
                if m is None or not getattr(m, "__name__", "").startswith("ahrs"):
                    continue
                for attr, val in list(vars(m).items()):
                    if val is orig:
                        setattr(m, attr, wrapper)
            self._attached[name] = orig
            code = getattr(orig, "__code__", None)
        else:
            cls = getattr(mod, parts[0])
            raw = cls.__dict__.get(parts[1])
            if raw is None:  # inherited: wrap on this class anyway
                raw = getattr(cls, parts[1])
            if isinstance(raw, staticmethod):
                f = raw.__func__
                setattr(cls, parts[1], staticmethod(self._wrap(name, f)))
            elif isinstance(raw, classmethod):
                f = raw.__func__
                setattr(cls, parts[1], classmethod(self._wrap(name, f)))
            elif isinstance(raw, property):
                f = raw.fget
                setattr(cls, parts[1], property(self._wrap(name, f), raw.fset, raw.fdel, raw.__doc__))
            elif isinstance(raw, functools.cached_property):      # (a tree under test may have turned a property into a cached one: keep its semantics)
                f = raw.func
                cp = functools.cached_property(self._wrap(name, f))
                cp.__set_name__(cls, parts[1])
                setattr(cls, parts[1], cp)
            elif not callable(raw):      # some other descriptor / plain attribute: observed nowhere, left as it is
                self._attached[name] = raw
                return name
            else:
                f = raw
                setattr(cls, parts[1], self._wrap(name, f))
            self._attached[name] = raw
            code = getattr(f, "__code__", None)
        if code is not None:
            self._codes[name] = code
        return name

    def _wrap(self, name, f):
        counts, pre, post = self._counts, self._pre, self._post

        @functools.wraps(f)
        def probe(*a, **k):
            counts[name] += 1
            for m in pre.get(name, ()):
                m(name, a, k)
            r = f(*a, **k)
            for m in post.get(name, ()):
                m(name, a, k, r)
            return r
        probe.__wrapped_by_vt__ = True
        return probe

    # ------------------------------------------------------------------
    def reach_start(self):
        mon = getattr(sys, "monitoring", None)
        if mon is None or not self._codes:
            return
        tool = mon.PROFILER_ID
        try:
            mon.use_tool_id(tool, "vt-reach")
        except ValueError:
            return
        self._tool = tool
        hit = self._hit
        bycode = {c: n for n, c in self._codes.items()}

        def on_line(code, line):
            n = bycode.get(code)
            if n is not None:
                hit.setdefault(n, set()).add(line)
            return mon.DISABLE

        mon.register_callback(tool, mon.events.LINE, on_line)
        for c in self._codes.values():
            mon.set_local_events(tool, c, mon.events.LINE)

    def reach_stop(self):
        out = {}
        mon = getattr(sys, "monitoring", None)
        for n, c in self._codes.items():
            lines = sorted({ln for (_, _, ln) in c.co_lines() if ln is not None and ln != c.co_firstlineno})
            hit = sorted(self._hit.get(n, ()))
            out[n] = (hit, len(lines), [ln for ln in lines if ln not in self._hit.get(n, ())][:40])
        if self._tool is not None and mon is not None:
            for c in self._codes.values():
                try:
                    mon.set_local_events(self._tool, c, 0)
                except Exception:
                    pass
            mon.register_callback(self._tool, mon.events.LINE, None)
            mon.free_tool_id(self._tool)
            self._tool = None
        return out
