"""C01 - quaternions and rotation matrices are one rotation group.

Reference-model monitor + algebraic-law monitor: for every generated (p, q, v)
each public conversion / multiplication / rotation route is executed and its
result compared with the independent model (vt.ref.quat) and with the group
laws.  Routes are the six hand-written copies of the quaternion->matrix formula
plus the product and rotation helpers."""
import numpy as np

from .. import forms, gens
from ..core import Case, call
from ..oracles import as_real_array
from ..ref import quat as rq

PROP = "C01"
LEVEL = "exploration"
SHARDS = {"quick": 2, "thorough": 16}
THOROUGH_DEPTH = 5      # thorough tier = this many times the base thorough budget (VERIF_DEPTH overrides)
RULE = ("cases = (p, q, v): unit quaternions drawn per region (generic Haar, pure, real, axis-aligned, "
        "denormal component, tiny angle, near half-turn, near-antipodal pair p~-q), v finite over 12 decades; "
        "each case drives all 21 routes; non-trivial = q is not +-identity; distinct = hash of route+input bytes")
ASSUMPTIONS = ["NumPy arithmetic is trusted", "reference model vt/ref/quat.py (Hamilton product; R columns = vec(q e_i q*))"]

MAT_ROUTES = ["Quaternion.to_DCM", "Quaternion.to_DCM[order=S]", "Quaternion.to_DCM[order=S, derived object]", "QuaternionArray.to_DCM[N]", "QuaternionArray.to_DCM[N,order=S]", "QuaternionArray.to_DCM[1]", "DCM(q=)",
              "DCM.from_quaternion", "DCM.from_quaternion[batch]", "DCM.from_q", "q2R.v1", "q2R.v2",
              "q2R.v1[batch]", "q2R.v2[batch]"]
OBJ_ROUTES = ["normalize()->routes"]
PROD_ROUTES = ["Quaternion.product", "Quaternion.__mul__", "Quaternion.__matmul__", "orientation.q_prod", "QuaternionArray.rotate_by", "orientation.q_conj"]
ROT_ROUTES = ["Quaternion.rotate(3,)", "Quaternion.rotate(3,N)", "orientation.q_rot"]
ROUTES = MAT_ROUTES + PROD_ROUTES + ROT_ROUTES + OBJ_ROUTES
REGIONS = {r: 40 for r in gens.UQ_REGIONS + ["antipodal_pair"]}
PROBES = [("ahrs.common.quaternion", "Quaternion.to_DCM"), ("ahrs.common.quaternion", "QuaternionArray.to_DCM"),
          ("ahrs.common.dcm", "DCM.from_quaternion"), ("ahrs.common.orientation", "q2R"),
          ("ahrs.common.orientation", "q_prod"), ("ahrs.common.orientation", "q_rot"),
          ("ahrs.common.quaternion", "Quaternion.product"), ("ahrs.common.quaternion", "Quaternion.rotate")]
REQUIRED_PROBES = ["quaternion.Quaternion.to_DCM", "quaternion.QuaternionArray.to_DCM", "dcm.DCM.from_quaternion",
                   "orientation.q2R", "orientation.q_prod", "orientation.q_rot", "quaternion.Quaternion.product",
                   "quaternion.Quaternion.rotate"]

TOL_R = 5e-14      # |route matrix - refR|max: different but equivalent closed forms differ by a few ulp
TOL_SO3 = 1e-13
TOL_PROD = 1e-14
TOL_ROT = 1e-13    # relative to |v|


def generate(rng, tier, shard, nshards):
    regs = list(REGIONS)
    n = gens.budget(5000, tier, nshards)
    for i in range(n):
        reg = regs[i % len(regs)]
        if reg == "antipodal_pair":
            q = gens.unit(rng)
            d = gens.unit(rng) * gens.logu(rng, 1e-12, 1e-3)
            p = -q + d
            p /= np.linalg.norm(p)
        else:
            q = gens.unit_quat(rng, reg)
            p = gens.unit_quat(rng, reg if rng.random() < (0.5 if reg in ("axis_aligned", "real") else (0.9 if reg == "octahedral" else 0.3)) else "generic")
        v = gens.vec3(rng, 1e-6, 1e6)
        V = rng.standard_normal((3, int(rng.integers(1, 6)))) * gens.logu(rng, 1e-3, 1e3)
        yield Case("all", reg, p=p, q=q, v=v, V=V)


def nontrivial(case):
    return abs(abs(case.p["q"][0]) - 1.0) > 0


import copy as _copy
DERIVE = [lambda X: X.copy(), lambda X: -X, lambda X: X.view(), _copy.deepcopy, lambda X: np.negative(X), lambda X: +X, _copy.copy]


def _mat_routes(p, q):
    """route -> thunk returning the rotation matrix of quaternion x (fresh copies each)."""
    import ahrs
    from ahrs.common import orientation as o
    from ahrs.common.dcm import DCM
    Q, QA = ahrs.Quaternion, ahrs.QuaternionArray

    def rows(x):
        return np.array([x, p, -x, rq.qconj(x)])
    return {
        "Quaternion.to_DCM": lambda x: Q(x.copy()).to_DCM(),
        "Quaternion.to_DCM[order=S]": lambda x: Q(np.r_[x[1:], x[0]], order="S").to_DCM(),              # the same quaternion stored scalar-last
        # ... and objects NumPy derives from the scalar-last one (a copy, a view, the negative - which is the same rotation): still that quaternion
        "Quaternion.to_DCM[order=S, derived object]": lambda x: DERIVE[int(abs(float(x[0])) * 1e6) % len(DERIVE)](Q(np.r_[x[1:], x[0]], order="S")).to_DCM(),
        "QuaternionArray.to_DCM[N]": lambda x: QA(rows(x)).to_DCM()[0],
        "QuaternionArray.to_DCM[N,order=S]": lambda x: QA(np.c_[rows(x)[:, 1:], rows(x)[:, 0]], order="S").to_DCM()[0],
        "QuaternionArray.to_DCM[1]": lambda x: QA(x.copy()[None]).to_DCM()[0],
        "DCM(q=)": lambda x: np.asarray(DCM(q=x.copy())),
        "DCM.from_quaternion": lambda x: DCM().from_quaternion(x.copy()),
        "DCM.from_quaternion[batch]": lambda x: DCM().from_quaternion(rows(x))[0],
        "DCM.from_q": lambda x: DCM().from_q(x.copy()),
        "q2R.v1": lambda x: o.q2R(x.copy()),
        "q2R.v2": lambda x: o.q2R(x.copy(), version=2),
        "q2R.v1[batch]": lambda x: o.q2R(rows(x))[0],
        "q2R.v2[batch]": lambda x: o.q2R(rows(x), version=2)[0],
    }


def check(case, ctx):
    import ahrs
    from ahrs.common import orientation as o
    p, q, v, V = case.p["p"], case.p["q"], case.p["v"], case.p["V"]
    pq = rq.qmul(p, q)
    Rp, Rq = rq.refR(p), rq.refR(q)
    routes = _mat_routes(p, q)
    for name, fn in routes.items():
        out = call(fn, q)
        if not ctx.returned(out, route=name):
            continue
        R = as_real_array(ctx, out.value, (3, 3), route=name, what="matrix")
        if R is None:
            continue
        ctx.le("matrix equals reference R(q)", np.abs(R - Rq).max(), TOL_R, {"R": R, "ref": Rq}, route=name)
        ctx.le("orthogonal, det +1", rq.so3_defect(R), TOL_SO3, route=name)
        # group laws through the same route
        o2 = call(fn, -q)
        if ctx.returned(o2, route=name):
            ctx.le("R(-q) = R(q)", np.abs(np.asarray(o2.value, float) - R).max(), TOL_R, route=name)
        o3 = call(fn, rq.qconj(q))
        if ctx.returned(o3, route=name):
            ctx.le("R(q*) = R(q)^T", np.abs(np.asarray(o3.value, float) - R.T).max(), TOL_R, route=name)
        o4, o5 = call(fn, pq / np.linalg.norm(pq)), call(fn, p)
        if ctx.returned(o4, route=name) and ctx.returned(o5, route=name):
            ctx.le("R(p q) = R(p) R(q)", np.abs(np.asarray(o4.value, float) - np.asarray(o5.value, float) @ R).max(),
                   4 * TOL_R, route=name)
    # quaternions read back from a log with k decimals: every row almost, none exactly, of unit length (a batch of such rows has no clearly
    # non-unit row in it); each route still answers with the proper rotation of the normalised quaternion
    k_dec = 3 + int(abs(float(v[1])) * 1e3) % 6
    qr_, pr_ = np.round(q, k_dec), np.round(p, k_dec)
    if np.linalg.norm(qr_) > 0.5 and np.linalg.norm(pr_) > 0.5:
        Rr_ = rq.refR(qr_ / np.linalg.norm(qr_))
        for name, fn in _mat_routes(pr_, qr_).items():
            out = call(fn, qr_)
            if ctx.returned(out, clause="no-exception[rounded quaternion]", route=name):
                R = as_real_array(ctx, out.value, (3, 3), route=name, what="matrix")
                if R is not None:
                    ctx.le("a quaternion rounded to k decimals (every row of the batch so) gives the proper rotation of its normalised self",
                           max(np.abs(R - Rr_).max(), rq.so3_defect(R)), TOL_R + TOL_SO3, {"decimals": k_dec, "q": qr_, "R": R, "ref": Rr_}, route=name)
    # the free conjugate helper, one quaternion and stacks of 1, 2 and 3 rows: the conjugate gives the transpose
    for lab, arr in (("(4,)", q), ("(1, 4)", q[None]), ("(2, 4)", np.array([q, p])), ("(3, 4)", np.array([q, p, -q]))):
        out = call(lambda: np.asarray(o.q_conj(arr.copy()), float))
        if ctx.returned(out, route="orientation.q_conj"):
            if ctx.ok("q_conj keeps the shape of what it was given", out.value.shape == arr.shape, {"given": list(arr.shape), "got": list(out.value.shape)}, route="orientation.q_conj"):
                c_ = out.value if arr.ndim == 1 else out.value[0]
                ctx.le("R(q_conj(q)) = R(q)^T", np.abs(rq.refR(c_ / np.linalg.norm(c_)) - Rq.T).max(), TOL_R, {"form": lab, "q": q, "conj": c_}, route="orientation.q_conj")
    # products
    P = ahrs.Quaternion(p.copy())
    Qo = ahrs.Quaternion(q.copy())
    prods = {
        "Quaternion.product": lambda: P.product(q.copy()),
        "Quaternion.__mul__": lambda: P * q.copy(),
        "Quaternion.__matmul__": lambda: P @ Qo,
        "orientation.q_prod": lambda: o.q_prod(p.copy(), q.copy()),
    }
    # the array class multiplies through rotate_by (rows q_i -> p q_i, renormalised): as rotations, R(row) = R(p) R(q_i); the rows stay unit
    out = call(lambda: np.asarray(ahrs.QuaternionArray(np.array([q, p, rq.qconj(q), -q])).rotate_by(p.copy()), float))
    if ctx.returned(out, route="QuaternionArray.rotate_by"):
        rb = as_real_array(ctx, out.value, (4, 4), route="QuaternionArray.rotate_by", what="rotated rows")
        if rb is not None:
            ctx.le("rotate_by rows are unit quaternions", float(np.abs(np.linalg.norm(rb, axis=1) - 1).max()), 1e-14, {"rows": rb}, route="QuaternionArray.rotate_by")
            refs = [rq.qmul(p, x) for x in (q, p, rq.qconj(q), -q)]
            if np.all(np.abs(np.linalg.norm(rb, axis=1) - 1) < 1e-6):
                ctx.le("R(rotate_by(p) row i) = R(p) R(q_i)", max(np.abs(rq.refR(rb[i] / np.linalg.norm(rb[i])) - rq.refR(refs[i] / np.linalg.norm(refs[i]))).max() for i in range(4)), 4 * TOL_R,
                       {"rows": rb}, route="QuaternionArray.rotate_by")
    for name, fn in prods.items():
        out = call(fn)
        if not ctx.returned(out, route=name):
            continue
        r = as_real_array(ctx, out.value, (4,), route=name, what="product")
        if r is not None:
            ctx.le("product equals Hamilton product", np.abs(r - pq).max(), TOL_PROD, {"got": r, "ref": pq}, route=name)
    # rotation of vectors
    nv = np.linalg.norm(v)
    qvq = rq.rotvec_apply(q, v)
    out = call(lambda: Qo.rotate(v.copy()))
    if ctx.returned(out, route="Quaternion.rotate(3,)"):
        r = as_real_array(ctx, out.value, (3,), route="Quaternion.rotate(3,)", what="rotated vector")
        if r is not None:
            ctx.le("rotate(v) = R v", np.linalg.norm(r - Rq @ v) / nv, TOL_ROT, route="Quaternion.rotate(3,)")
            ctx.le("rotate(v) = vec(q v q*)", np.linalg.norm(r - qvq[1:]) / nv, TOL_ROT, route="Quaternion.rotate(3,)")
    out = call(lambda: Qo.rotate(V.copy()))
    if ctx.returned(out, route="Quaternion.rotate(3,N)"):
        r = as_real_array(ctx, out.value, V.shape, route="Quaternion.rotate(3,N)", what="rotated vectors")
        if r is not None:
            ctx.le("rotate(V) = R V", np.abs(r - Rq @ V).max() / np.abs(V).max(), TOL_ROT, route="Quaternion.rotate(3,N)")
    out = call(lambda: o.q_rot(q.copy(), v.copy()))
    if ctx.returned(out, route="orientation.q_rot"):
        r = as_real_array(ctx, out.value, (3,), route="orientation.q_rot", what="rotated vector")
        if r is not None:
            ctx.le("q_rot(q, v) = R(q)^T v (inverse rotation)", np.linalg.norm(r - Rq.T @ v) / nv, TOL_ROT,
                   {"got": r, "ref": Rq.T @ v}, route="orientation.q_rot")
    # "rotating v with the quaternion ... equals the vector part of q v q*": the sandwich through the product method and both operators, the pure
    # quaternion (0, v) handed over as an array and as an object - for v of any length, and for v almost (not exactly) of unit length
    for lab, vv in (("v", v), ("v almost of unit length", v / nv * (1.0 + (1e-9 + (abs(float(q[1])) * 1e-5) % 9e-6) * (1.0 if q[2] > 0 else -1.0)))):
        pv = np.r_[0.0, vv]
        qc_ = rq.qconj(q)
        outs = call(lambda: (np.asarray(ahrs.Quaternion(np.asarray(Qo.product(pv.copy()), float), versor=False).product(qc_.copy()), float),
                             np.asarray(ahrs.Quaternion(np.asarray(Qo * pv.copy(), float), versor=False) * qc_.copy(), float),
                             np.asarray(ahrs.Quaternion(np.asarray(Qo @ ahrs.Quaternion(pv.copy(), versor=False), float), versor=False) @ ahrs.Quaternion(qc_.copy()), float)))
        if ctx.returned(outs, route="Quaternion.product"):
            want = np.r_[0.0, Rq @ vv]
            for nm_, got in zip(("Quaternion.product", "Quaternion.__mul__", "Quaternion.__matmul__"), outs.value):
                ctx.le("vec(q v q*) through the library's own product = R v (the length of v kept)", np.linalg.norm(got - want) / np.linalg.norm(vv), TOL_ROT, {"which": lab, "got": got, "ref": want, "|v|": float(np.linalg.norm(vv))},
                       route=nm_)
    # rotation through the matrix forms of the product: vec(L(q) R(q*) (0, v)) and vec(L(q) L(V) q*) with V = (0, v) kept as given (|v| != 1)
    r = "Quaternion.rotate(3,)"
    Vq = ahrs.Quaternion(np.r_[0.0, v], versor=False)
    out = call(lambda: (np.asarray(Qo.mult_L(), float) @ np.asarray(ahrs.Quaternion(rq.qconj(q)).mult_R(), float) @ np.r_[0.0, v],
                        np.asarray(Qo.mult_L(), float) @ np.asarray(Vq.mult_L(), float) @ rq.qconj(q),
                        np.asarray(Vq.mult_R(), float) @ q, np.asarray(Vq.mult_L(), float) @ q))
    if ctx.returned(out, clause="no-exception[mult_L / mult_R]", route=r):
        s1, s2, rv_, lv_ = out.value
        ctx.le("vec(L(q) R(q*) (0, v)) = R v", np.linalg.norm(s1[1:] - Rq @ v) / nv, TOL_ROT, {"got": s1, "ref": Rq @ v}, route=r)
        ctx.le("vec(L(q) L(V) q*) = R v for the pure quaternion V = (0, v), |v| != 1", np.linalg.norm(s2[1:] - Rq @ v) / nv, TOL_ROT, {"got": s2, "ref": Rq @ v}, route=r)
        ctx.le("R(V) q = q V and L(V) q = V q (matrix forms of a non-unit quaternion)", max(np.abs(rv_ - rq.qmul(q, np.r_[0.0, v])).max(), np.abs(lv_ - rq.qmul(np.r_[0.0, v], q)).max()) / nv, TOL_ROT, route=r)
    # an object built non-normalised and normalised in place, handed to the routes that read the object as an array
    r = "normalize()->routes"
    scale = 0.1 + 7.0 * abs(v[0]) / nv

    def nobj():
        x = ahrs.Quaternion(q.copy() * scale, versor=False)
        x.normalize()
        return x
    out = call(nobj)
    if ctx.returned(out, route=r):
        Qn = out.value
        from ahrs.common.dcm import DCM
        vals = call(lambda: (np.array(Qn.to_DCM(), float), np.array(DCM(q=Qn), float), np.array(o.q2R(np.array(Qn)), float), np.array(o.q_rot(Qn, v.copy()), float),
                             np.array(P.product(Qn), float), np.array(Qn.rotate(v.copy()), float)))
        if ctx.returned(vals, route=r):
            M1, M2, M3, rv, pr, rot = vals.value
            ctx.le("normalised object: every matrix route gives R(q)", max(np.abs(M1 - Rq).max(), np.abs(M2 - Rq).max(), np.abs(M3 - Rq).max()), TOL_R, route=r)
            ctx.le("normalised object: q_rot(obj, v) = R^T v", np.linalg.norm(rv - Rq.T @ v) / nv, TOL_ROT, route=r)
            ctx.le("normalised object: p.product(obj) = p q", np.abs(pr - pq).max(), TOL_PROD, {"got": pr, "ref": pq}, route=r)
            ctx.le("normalised object: rotate(v) = R v", np.linalg.norm(rot - Rq @ v) / nv, TOL_ROT, route=r)
    # the same quaternions / vectors written as lists, tuples or integer arrays (exactly representable cases only)
    if True:
        from ahrs.common.dcm import DCM
        Q_, QA_ = ahrs.Quaternion, ahrs.QuaternionArray
        vi = np.round(v / np.abs(v).max() * 3.0) if not forms.integral(v) else v
        if not np.any(vi):
            vi = np.array([1.0, -2.0, 3.0])
        for route, fn, args in (
                ("orientation.q_prod", lambda a, b: o.q_prod(a, b), [p, q]),
                ("orientation.q_prod", lambda a, b: o.q_prod(a, b), [q, p]),
                ("Quaternion.product", lambda a, b: Q_(a).product(b), [p, q]),
                ("Quaternion.product", lambda a, b: Q_(a).product(b), [q, p]),
                ("Quaternion.__mul__", lambda a, b: np.asarray(Q_(a) * b), [p, q]),
                ("Quaternion.__mul__", lambda a, b: np.asarray(Q_(a) * b), [q, p]),
                ("Quaternion.__matmul__", lambda a, b: np.asarray(Q_(a) @ Q_(b)), [p, q]),
                ("Quaternion.__matmul__", lambda a, b: np.asarray(Q_(a) @ Q_(b)), [q, p]),
                ("orientation.q_rot", lambda a, b: o.q_rot(a, b), [q, vi]),
                ("Quaternion.rotate(3,)", lambda a, b: Q_(a).rotate(b), [q, vi]),
                ("Quaternion.rotate(3,N)", lambda a, b: Q_(a).rotate(b), [q, np.array([vi, -vi, vi[::-1]]).T.copy()]),
                ("Quaternion.to_DCM", lambda a: Q_(a).to_DCM(), [q]),
                ("QuaternionArray.to_DCM[N]", lambda a: QA_(a).to_DCM(), [np.array([q, p, -q])]),
                ("DCM(q=)", lambda a: np.asarray(DCM(q=a)), [q]),
                ("DCM.from_quaternion", lambda a: DCM().from_quaternion(a), [q]),
                ("DCM.from_quaternion[batch]", lambda a: DCM().from_quaternion(a), [np.array([q, p, -q])]),
                ("q2R.v1", lambda a: o.q2R(a), [q]), ("q2R.v2", lambda a: o.q2R(a, version=2), [q]),
                ("q2R.v1[batch]", lambda a: o.q2R(a), [np.array([q, p, -q])])):
            forms.invariant(ctx, route, fn, args, objects=True, lists=bool(forms.integral(q) or forms.integral(p)),
                            clause="the same values in another argument form (list / tuple / integer / Quaternion object) give the same result")
    ctx.le("reference self-check: scalar part of q v q* is 0", abs(qvq[0]) / nv, 1e-14, route="Quaternion.rotate(3,)")
