"""C02 - every DCM->quaternion method inverts quaternion->DCM over all of SO(3).

Reference-model monitor: R is built by the harness (Rodrigues formula) from an
(axis, angle) drawn per region; every method x entry point of the real code is
run on it and the returned quaternion is pushed through the harness' own
quaternion->matrix model and compared with R."""
import numpy as np

from .. import gens
from ..core import Case, call
from ..oracles import as_real_array
from ..ref import quat as rq

PROP = "C02"
LEVEL = "exploration"
SHARDS = {"quick": 2, "thorough": 16}
THOROUGH_DEPTH = 8      # thorough tier = this many times the base thorough budget (VERIF_DEPTH overrides)
METHODS = [("shepperd", {}), ("hughes", {}), ("chiaverini", {}), ("itzhack", {"version": 1}),
           ("itzhack", {"version": 2}), ("itzhack", {"version": 3}), ("sarabandi", {})]
ROBUST = {"shepperd", "itzhack"}
ENTRIES = ["DCM.to_quaternion", "Quaternion(dcm=)", "QuaternionArray(DCM=)", "free"]


def mname(m, kw):
    return m + ("%d" % kw["version"] if "version" in kw else "")


LAYOUTS = ["F-order", "strided-view", "transposed-view", "integer", "list"]
DERIVED = ["copy()", "T-of-transpose", "product", "view()"]
ROUTES = ["%s/%s" % (e, mname(m, kw)) for e in ENTRIES for m, kw in METHODS] + ["DCM.to_q/default", "Quaternion.from_DCM/default", "DCM.to_quaternion/default", "Quaternion(dcm=)/default",
          "QuaternionArray(DCM=)/default", "QuaternionArray.from_DCM/default"] + \
         ["DCM(array in any layout)", "DCM object from DCM operations"] + \
         ["DCM.to_quaternion/sarabandi[threshold]", "DCM.to_q/sarabandi[threshold]", "Quaternion(dcm=)/sarabandi[threshold]", "QuaternionArray(DCM=)/sarabandi[threshold]",
          "free/sarabandi[eta]"] + ["DCM.to_q/" + mname(m, kw) for m, kw in METHODS]
PIVOTS = ["pivot_tr", "pivot_r11", "pivot_r22", "pivot_r33"]
REGIONS = dict({r: 30 for r in gens.ROT_REGIONS if r != "generic"}, **{p: 30 for p in PIVOTS},
               **{"trace_neg": 30, "isclose_band": 30})
PROBES = [("ahrs.common.orientation", f) for f in ("shepperd", "hughes", "chiaverini", "itzhack", "sarabandi")] + \
         [("ahrs.common.dcm", "DCM.to_quaternion"), ("ahrs.common.quaternion", "Quaternion.from_DCM"),
          ("ahrs.common.quaternion", "QuaternionArray.from_DCM")]
REQUIRED_PROBES = ["orientation.shepperd", "orientation.hughes", "orientation.chiaverini", "orientation.itzhack",
                   "orientation.sarabandi", "dcm.DCM.to_quaternion", "quaternion.Quaternion.from_DCM",
                   "quaternion.QuaternionArray.from_DCM"]
RULE = ("cases = rotation matrices from (axis, angle) per region: the four Shepperd pivot classes, negative trace, "
        "angle in 1e-12..1e-3, 1e-3..0.1, pi-1e-6..pi-0.1, within 1e-12..1e-6 of pi, exact half-turns about "
        "axis-aligned / oblique / zero-component axes, identity, axes in a coordinate plane, and angles on both sides "
        "of the np.isclose(trace,3) band (theta 1e-3..2e-2); each case drives 7 methods x 4 entry points; "
        "non-trivial = rotation angle > 1e-9")
ASSUMPTIONS = ["NumPy trusted", "R built by Rodrigues' formula in vt/ref/quat.py; refR independent of the library's closed form",
               "closed-form methods (hughes, chiaverini, sarabandi) judged only for angles <= pi - 1e-6, tolerance 1e-6 "
               "(sqrt of a cancelling quantity costs sqrt(eps) by construction)"]

TOL_ROBUST = 1e-12
TOL_CLOSED = 1e-6


def _pivot(R):
    return int(np.argmax([np.trace(R), R[0, 0], R[1, 1], R[2, 2]]))


def generate(rng, tier, shard, nshards):
    regs = list(REGIONS)
    n = gens.budget(1100, tier, nshards)
    for i in range(n):
        reg = regs[i % len(regs)]
        if reg in PIVOTS:
            want = PIVOTS.index(reg)
            while True:
                ax, ang = gens.rot_axang(rng, "generic")
                if _pivot(rq.rodrigues(ax, ang)) == want:
                    break
        elif reg == "trace_neg":
            ax, ang = gens.axis(rng), float(rng.uniform(2 * np.pi / 3 + 0.01, np.pi - 0.01) * rng.choice([-1, 1]))
        elif reg == "isclose_band":
            ax, ang = gens.axis(rng), gens.logu(rng, 1e-3, 2e-2) * float(rng.choice([-1, 1]))
        else:
            ax, ang = gens.rot_axang(rng, reg)
        others = np.array([rq.rodrigues(*gens.rot_axang(rng, "generic")) for _ in range(int(rng.integers(0, 3)))]).reshape(-1, 3, 3)
        yield Case("all", reg, axis=ax, angle=ang, others=others)


def nontrivial(case):
    return abs(case.p["angle"]) > 1e-9


def build_R(case):
    ax, ang = case.p["axis"], case.p["angle"]
    if case.region == "identity":
        return np.eye(3)
    if case.region.startswith("half"):
        return 2.0 * np.outer(ax, ax) - np.eye(3)     # exact half-turn
    return rq.rodrigues(ax, ang)


def judge(ctx, route, method, val, R, theta, shape=(4,)):
    q = as_real_array(ctx, val, shape, route=route, what="quaternion")
    if q is None:
        return
    ctx.ok("dtype is float64", np.asarray(val).dtype == np.float64, {"dtype": str(np.asarray(val).dtype)}, route=route)
    if q.ndim == 2:
        q = q[0]
    ctx.le("unit norm", abs(np.linalg.norm(q) - 1.0), 1e-12, route=route)
    err = np.abs(rq.refR(q / np.linalg.norm(q)) - R).max()
    if method in ROBUST:
        ctx.le("R(q) = R [robust class, all of SO(3)]", err, TOL_ROBUST, {"q": q, "err": err, "theta": theta}, route=route)
    else:
        ctx.le("R(q) = R [closed-form class, theta <= pi-1e-6]", err, TOL_CLOSED, {"q": q, "err": err, "theta": theta}, route=route)


def layouts(R):
    """the same matrix values held in other memory layouts / element types (all legitimate ndarray inputs)."""
    out = {"F-order": np.asfortranarray(R), "strided-view": np.pad(R, 1)[1:4, 1:4], "transposed-view": np.ascontiguousarray(R.T).T}
    if np.all(R == np.round(R)):
        out["integer"] = np.round(R).astype(int)
    return out


def derived(DCM, R, S):
    """DCM objects that are results of array operations on DCM objects (the class documentation composes them with @)."""
    return {"copy()": lambda: DCM(R.copy()).copy(), "T-of-transpose": lambda: DCM(np.ascontiguousarray(R.T)).T,
            "product": lambda: DCM(R @ S.T) @ DCM(S.copy()), "view()": lambda: DCM(R.copy()).view()}


def check_objects(case, ctx, R, theta):
    """C02 quantifies over every rotation handed to DCM.to_quaternion: the matrix may arrive in any memory layout and the
    DCM object may itself be the result of operations on DCM objects."""
    from ahrs.common.dcm import DCM
    S = case.p["others"][0] if len(case.p["others"]) else rq.rodrigues(np.array([0.0, 0.0, 1.0]), 0.3)
    objs = []
    r = "DCM(array in any layout)"
    for nm, arr in layouts(R).items():
        before = arr.copy()
        out = call(lambda: DCM(arr))
        if not ctx.returned(out, clause="no-exception[%s]" % nm, route=r):
            continue
        D = out.value
        data, A_ = np.array(np.asarray(D), float), np.array(D.A, float)
        ctx.le("the DCM object holds the matrix it was built from (array data)", np.abs(data - R).max(), 0.0, {"layout": nm, "data": data, "R": R}, route=r)
        ctx.le("the DCM object holds the matrix it was built from (.A)", np.abs(A_ - R).max(), 0.0, {"layout": nm}, route=r)
        ctx.ok("input array untouched", np.array_equal(arr, before), route=r)
        objs.append((r, nm, D, R, theta))
    r = "DCM object from DCM operations"
    for nm, mk in derived(DCM, R, S).items():
        out = call(mk)
        if not ctx.returned(out, clause="no-exception[%s]" % nm, route=r):
            continue
        D = out.value
        ctx.ok("result of a DCM operation is a DCM", isinstance(D, DCM), {"op": nm, "type": type(D).__name__}, route=r)
        Re = np.array(np.asarray(D), float)
        ctx.le("derived object holds the expected matrix", np.abs(Re - R).max(), 0.0 if nm != "product" else 4e-15, {"op": nm}, route=r)
        objs.append((r, nm, D, Re, rq.rot_angle(Re)))
    for r, nm, D, Re, th in objs:
        if not isinstance(D, DCM):
            continue
        for m, kw in METHODS:
            if m not in ROBUST and th > np.pi - 1e-6:
                continue
            out = call(lambda: D.to_quaternion(m, **kw))
            if ctx.returned(out, clause="no-exception[%s].to_quaternion" % nm, route=r):
                judge(ctx, r, m, out.value, Re, th)
        out = call(lambda: (np.array(D.inv, float), np.array(D.I, float), float(D.det), np.array(D.to_angles(), float)))
        if ctx.returned(out, clause="no-exception[%s].inv/det/to_angles" % nm, route=r):
            ctx.le("inv and I are the transpose of the matrix held", max(np.abs(out.value[0] - Re.T).max(), np.abs(out.value[1] - Re.T).max()), 0.0, {"obj": nm}, route=r)
            ctx.le("det = 1", abs(out.value[2] - 1.0), 1e-12, route=r)


def check(case, ctx):
    import ahrs
    from ahrs.common import orientation as o
    from ahrs.common.dcm import DCM
    R = build_R(case)
    theta = rq.rot_angle(R)
    R3 = np.concatenate([R[None], case.p["others"]]) if len(case.p["others"]) else R[None]
    check_objects(case, ctx, R, theta)
    free = {"shepperd": o.shepperd, "hughes": o.hughes, "chiaverini": o.chiaverini, "itzhack": o.itzhack, "sarabandi": o.sarabandi}
    k_sp = int(abs(case.p["angle"]) * 1e7)
    for m_, kw in METHODS:
        mn = mname(m_, kw)
        m = m_
        kw = {k_: gens.numtype(v_, k_sp + len(mn)) for k_, v_ in kw.items()}      # (version 2 is version 2 as a Python int or as a NumPy integer)
        if m not in ROBUST and theta > np.pi - 1e-6:
            # closed-form formulas divide by / take the sign of an exact zero at the half-turn: outside the
            # property's domain for these three methods (values and exceptions are recorded, not judged)
            ctx.note("closed-form method outside its domain (theta > pi-1e-6): not judged", 4)
            continue
        ms = gens.spell(m, k_sp + len(mn))          # method names are compared case-insensitively by every entry point
        r = "DCM.to_quaternion/" + mn
        out = call(lambda: DCM(R.copy()).to_quaternion(ms, **kw))
        if ctx.returned(out, route=r):
            judge(ctx, r, m, out.value, R, theta)
        r = "Quaternion(dcm=)/" + mn
        out = call(lambda: np.asarray(ahrs.Quaternion(dcm=R.copy(), method=gens.spell(m, k_sp + 1), **kw)))
        if ctx.returned(out, route=r):
            judge(ctx, r, m, out.value, R, theta)
        r = "QuaternionArray(DCM=)/" + mn
        out = call(lambda: np.asarray(ahrs.QuaternionArray(DCM=R3.copy(), method=gens.spell(m, k_sp + 2), **kw)))
        if ctx.returned(out, route=r):
            judge(ctx, r, m, out.value, R, theta, shape=(len(R3), 4))
        # the array class with its normalising option switched off, and its conversion method called directly: what comes back must be unit already
        for lab_, fn_ in (("versors=False", lambda: np.asarray(ahrs.QuaternionArray(DCM=R3.copy(), method=m, versors=False, **kw))),
                          ("from_DCM(inplace=False)", lambda: np.asarray(ahrs.QuaternionArray().from_DCM(R3.copy(), method=m, inplace=False, **kw)))):
            out = call(fn_)
            if ctx.returned(out, clause="no-exception[%s]" % lab_, route="QuaternionArray(DCM=)/" + mn):
                judge(ctx, "QuaternionArray(DCM=)/" + mn, m, out.value, R, theta, shape=(len(R3), 4))
        if np.all(R == np.round(R)):          # whole-number matrices (the cube rotations) typed as integers, one and a stack of them
            Ri = np.round(np.array([R, R.T, R @ R])).astype(int)
            for r, fi, ff in (("QuaternionArray(DCM=)/" + mn, lambda: np.asarray(ahrs.QuaternionArray(DCM=Ri.copy(), method=m, **kw)), lambda: np.asarray(ahrs.QuaternionArray(DCM=Ri.astype(float), method=m, **kw))),
                              ("Quaternion(dcm=)/" + mn, lambda: np.asarray(ahrs.Quaternion(dcm=Ri[0].copy(), method=m, **kw)), lambda: np.asarray(ahrs.Quaternion(dcm=Ri[0].astype(float), method=m, **kw))),
                              ("free/" + mn, lambda: np.asarray(free[m](Ri[0].copy(), **kw)), lambda: np.asarray(free[m](Ri[0].astype(float), **kw)))):
                of = call(ff)
                if not of.ok:
                    continue        # (the float call itself fails: judged above, or outside the method's domain)
                oi = call(fi)
                if ctx.returned(oi, clause="no-exception[integer-typed matrices]", route=r):
                    a_i, a_f = np.asarray(oi.value, float), np.asarray(of.value, float)
                    same = a_i.shape == a_f.shape and (np.array_equal(a_i, a_f, equal_nan=True) or float(np.nanmax(np.minimum(np.abs(a_i - a_f), np.abs(a_i + a_f)))) <= 1e-15)
                    ctx.ok("whole-number matrices typed as integers give the quaternions of the same matrices typed as floats", bool(same), {"int": a_i, "float": a_f}, route=r)
        r = "free/" + mn
        out = call(lambda: free[m](R.copy(), **kw))
        if ctx.returned(out, route=r):
            judge(ctx, r, m, out.value, R, theta)
    # one DCM object converted, updated in place to another rotation (R[:] = R2, the way a loop re-uses its matrix), converted again with the same
    # method and options: the second answer is the quaternion of the matrix the object holds now
    S_ = case.p["others"][0] if len(case.p["others"]) else rq.rodrigues(np.array([0.6, 0.0, 0.8]), 1.1)
    R2_ = S_ @ R
    th2 = rq.rot_angle(R2_)
    for m, kw in METHODS:
        if m not in ROBUST and (theta > np.pi - 1e-6 or th2 > np.pi - 1e-6):
            continue
        r = "DCM.to_quaternion/" + mname(m, kw)

        def twice_():
            D_ = DCM(R.copy())
            first = np.asarray(D_.to_quaternion(m, **kw), float)
            D_[:] = R2_
            return first, np.asarray(D_.to_quaternion(m, **kw), float), np.asarray(D_.to_q(), float)
        o2_ = call(twice_)
        if ctx.returned(o2_, clause="no-exception[object updated in place between two conversions]", route=r):
            judge(ctx, r, m, o2_.value[1], R2_, th2)
            judge(ctx, "DCM.to_q/default", "shepperd", o2_.value[2], R2_, th2)
    out = call(lambda: DCM(R.copy()).to_q())
    if ctx.returned(out, route="DCM.to_q/default"):
        judge(ctx, "DCM.to_q/default", "shepperd", out.value, R, theta)
    out = call(lambda: ahrs.Quaternion().from_DCM(R.copy()))
    if ctx.returned(out, route="Quaternion.from_DCM/default"):
        judge(ctx, "Quaternion.from_DCM/default", "shepperd", out.value, R, theta)
    # a finely sampled slow rotation: consecutive rows differ by 1e-9 .. 1e-4 rad; every row of the result must reproduce its own matrix
    dth = 10.0 ** (-9.0 + 5.0 * ((abs(case.p["angle"]) * 1e3) % 1.0))
    axs = case.p["axis"] / np.linalg.norm(case.p["axis"]) if np.linalg.norm(case.p["axis"]) > 0 else np.array([0.0, 0.0, 1.0])
    Rs = np.array([R @ rq.rodrigues(axs, k * dth) for k in range(6)])
    for m, kw in METHODS:
        if m not in ROBUST and (theta + 6 * dth) > np.pi - 1e-6:
            continue
        r = "QuaternionArray(DCM=)/" + mname(m, kw)
        out = call(lambda: np.asarray(ahrs.QuaternionArray(DCM=Rs.copy(), method=m, **kw), float))
        if ctx.returned(out, clause="no-exception[smooth stack]", route=r) and out.value.shape == (6, 4):
            errs = [np.abs(rq.refR(out.value[k] / np.linalg.norm(out.value[k])) - Rs[k]).max() for k in range(6)]
            ctx.le("every row of a smooth stack reproduces its own matrix", float(max(errs)), TOL_ROBUST if m in ROBUST else TOL_CLOSED, {"step_rad": dth, "errors": errs}, route=r)
    # Sarabandi's documented threshold option (its branches switch between two formulas for the same component: any value must give the same rotation)
    if theta <= np.pi - 1e-6:
        # (non-negative values only: with a negative threshold the first formula sqrt(1 + d) is used for components that are exactly zero, where
        #  rounding makes 1 + d = -2e-16: NaN on coordinate-plane axes - a limitation of that non-default setting, recorded in DESIGN, not judged)
        th_ = float([0.1, 0.3, 0.5, 0.9, 1.5, 2.5, 3.0][int(abs(case.p["angle"]) * 1e6) % 7])
        for r, fn, shape in (("DCM.to_quaternion/sarabandi[threshold]", lambda: DCM(R.copy()).to_quaternion("sarabandi", threshold=th_), (4,)),
                             ("DCM.to_q/sarabandi[threshold]", lambda: DCM(R.copy()).to_q("sarabandi", threshold=th_), (4,)),
                             ("Quaternion(dcm=)/sarabandi[threshold]", lambda: np.asarray(ahrs.Quaternion(dcm=R.copy(), method="sarabandi", threshold=th_)), (4,)),
                             ("QuaternionArray(DCM=)/sarabandi[threshold]", lambda: np.asarray(ahrs.QuaternionArray(DCM=R3.copy(), method="sarabandi", threshold=th_)), (len(R3), 4)),
                             ("free/sarabandi[eta]", lambda: o.sarabandi(R.copy(), eta=th_), (4,))):
            out = call(fn)
            if ctx.returned(out, route=r):
                judge(ctx, r, "sarabandi", out.value, R, theta, shape=shape)
    # the other methods through the DCM.to_q alias (same signature as to_quaternion)
    for m, kw in METHODS:
        if m in ROBUST or theta <= np.pi - 1e-6:
            out = call(lambda: DCM(R.copy()).to_q(m, **kw))
            if ctx.returned(out, route="DCM.to_q/" + mname(m, kw)):
                judge(ctx, "DCM.to_q/" + mname(m, kw), m, out.value, R, theta)
    # every entry point called without naming a method: the default must be of the robust class (all of SO(3), half-turns included)
    for r, fn, shape in (("DCM.to_quaternion/default", lambda: DCM(R.copy()).to_quaternion(), (4,)),
                         ("Quaternion(dcm=)/default", lambda: np.asarray(ahrs.Quaternion(dcm=R.copy())), (4,)),
                         ("QuaternionArray(DCM=)/default", lambda: np.asarray(ahrs.QuaternionArray(DCM=R3.copy())), (len(R3), 4)),
                         ("QuaternionArray.from_DCM/default", lambda: ahrs.QuaternionArray().from_DCM(R3.copy(), inplace=False), (len(R3), 4))):
        out = call(fn)
        if ctx.returned(out, route=r):
            judge(ctx, r, "shepperd", out.value, R, theta, shape=shape)
