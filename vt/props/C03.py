"""C03 - every estimator always returns valid attitudes, one per input sample.

Invariant monitors on the outputs of every exported estimator (constructor
path) and, through probes on update*/estimate, on every intermediate step, so a
violation is reported with the first bad sample."""
import numpy as np

from .. import gens
from ..core import Case, call
from ..ref import quat as rq

PROP = "C03"
LEVEL = "exploration"
SHARDS = {"quick": 4, "thorough": 16}
THOROUGH_DEPTH = 6      # thorough tier = this many times the base thorough budget (VERIF_DEPTH overrides)
TIME_CAP = {"quick": 900, "thorough": 2400}
KINDS = ["random", "consistent", "moving", "level", "inverted", "vertical", "pure-pitch", "pure-roll", "sparse", "integer", "near-special"]
REGIONS = {"hist:" + k: 12 for k in KINDS}
REGIONS["hist:long-fast"] = 3       # long recordings of a fast-turning sensor (recursive estimators only)
TOL_UNIT = 1e-9

# name -> (needs, builder(F, g, a, m, P) -> result array, representation)
#   needs: which sensors ('gam', 'ga', 'am', 'a', 'g'); P: dict of random parameters


def _specs():
    S = {}

    def add(name, needs, fn, rep="quaternion"):
        S[name] = (needs, fn, rep)
    add("Madgwick/IMU", "ga", lambda F, g, a, m, P: F.Madgwick(g, a, **P.get("madgwick", {})).Q)
    add("Madgwick/MARG", "gam", lambda F, g, a, m, P: F.Madgwick(g, a, m, **P.get("madgwick", {})).Q)
    add("Mahony/IMU", "ga", lambda F, g, a, m, P: F.Mahony(g, a, **P.get("mahony", {})).Q)
    add("Mahony/MARG/q0/kp,ki", "gam", lambda F, g, a, m, P: F.Mahony(g, a, m, kp=0.7, ki=0.2, q0=q0_of(P)).Q)          # the gains under their older keyword names (docstring example)
    add("Mahony/MARG", "gam", lambda F, g, a, m, P: F.Mahony(g, a, m, **P.get("mahony", {})).Q)
    for fr in ("NED", "ENU"):
        add("EKF/IMU/" + fr, "ga", lambda F, g, a, m, P, fr=fr: F.EKF(g, a, frame=fr, **P.get("ekf", {})).Q)
        add("EKF/MARG/" + fr, "gam", lambda F, g, a, m, P, fr=fr: F.EKF(g, a, m, frame=fr, **P.get("ekf", {}), **P.get("ekf_marg", {})).Q)
    add("UKF", "ga", lambda F, g, a, m, P: F.UKF(g, a, **P.get("ukf", {})).Q)
    add("AQUA/acc", "a", lambda F, g, a, m, P: F.AQUA(a, **P.get("aqua", {})).Q)
    add("AQUA/acc+mag", "am", lambda F, g, a, m, P: F.AQUA(a, m, **P.get("aqua", {})).Q)
    add("AQUA/IMU", "ga", lambda F, g, a, m, P: F.AQUA(a, gyr=g, **P.get("aqua", {})).Q)
    add("AQUA/MARG", "gam", lambda F, g, a, m, P: F.AQUA(a, m, g, **P.get("aqua", {})).Q)
    add("AQUA/MARG/adaptive", "gam", lambda F, g, a, m, P: F.AQUA(a, m, g, adaptive=True, **P.get("aqua", {})).Q)
    # an initial attitude given by the caller: exactly unit, or unit only to the four decimals it was typed with (the constructors accept it)
    def q0_of(P):
        q = np.array(P.get("q0", [0.7071, 0.0, 0.7071, 0.0]), float)
        return q
    add("Madgwick/IMU/q0", "ga", lambda F, g, a, m, P: F.Madgwick(g, a, q0=q0_of(P), **P.get("madgwick", {})).Q)
    add("Mahony/IMU/q0", "ga", lambda F, g, a, m, P: F.Mahony(g, a, q0=q0_of(P), **P.get("mahony", {})).Q)
    add("Mahony/MARG/q0", "gam", lambda F, g, a, m, P: F.Mahony(g, a, m, q0=q0_of(P), **P.get("mahony", {})).Q)
    add("EKF/MARG/q0", "gam", lambda F, g, a, m, P: F.EKF(g, a, m, q0=q0_of(P), **P.get("ekf", {}), **P.get("ekf_marg", {})).Q)
    add("AQUA/MARG/q0", "gam", lambda F, g, a, m, P: F.AQUA(a, m, g, q0=q0_of(P), **P.get("aqua", {})).Q)
    add("AQUA/IMU/q0", "ga", lambda F, g, a, m, P: F.AQUA(a, gyr=g, q0=q0_of(P), **P.get("aqua", {})).Q)
    add("ROLEQ/q0", "gam", lambda F, g, a, m, P: F.ROLEQ(g, a, m, q0=q0_of(P), **P.get("roleq", {})).Q)
    add("AngularRate/q0", "g", lambda F, g, a, m, P: F.AngularRate(g, q0=q0_of(P), **P.get("angular", {})).Q)
    add("Fourati/q0", "gam", lambda F, g, a, m, P: F.Fourati(g, a, m, q0=q0_of(P), **P.get("fourati", {})).Q)
    add("Complementary/MARG/q0", "gam", lambda F, g, a, m, P: F.Complementary(g, a, m, q0=q0_of(P), **P.get("complementary", {})).Q)
    add("FKF/Pk", "gam", lambda F, g, a, m, P: F.FKF(g, a, m, Pk=np.identity(4) * 0.37, **P.get("fkf", {})).Q)
    add("Fourati", "gam", lambda F, g, a, m, P: F.Fourati(g, a, m, **P.get("fourati", {})).Q)
    for fr in ("NED", "ENU"):
        add("ROLEQ/" + fr, "gam", lambda F, g, a, m, P, fr=fr: F.ROLEQ(g, a, m, frame=fr, **P.get("roleq", {})).Q)
    add("FKF", "gam", lambda F, g, a, m, P: F.FKF(g, a, m, **P.get("fkf", {})).Q)
    add("Complementary/IMU", "ga", lambda F, g, a, m, P: F.Complementary(g, a, **P.get("complementary", {})).Q)
    add("Complementary/MARG", "gam", lambda F, g, a, m, P: F.Complementary(g, a, m, **P.get("complementary", {})).Q)
    add("AngularRate/closed", "g", lambda F, g, a, m, P: F.AngularRate(g, **P.get("angular", {})).Q)
    add("AngularRate/series", "g", lambda F, g, a, m, P: F.AngularRate(g, method="series", order=P.get("order", 3), **P.get("angular", {})).Q)
    # the third method option: roll-pitch-yaw rates summed up (vectorised), in each representation
    add("AngularRate/integration", "g", lambda F, g, a, m, P: F.AngularRate(g, method="integration", **P.get("angular", {})).Q)
    add("AngularRate/integration/rotmat", "g", lambda F, g, a, m, P: F.AngularRate(g, method="integration", representation="rotmat", **P.get("angular", {})).R, "rotmat")
    add("AngularRate/integration/angles", "g", lambda F, g, a, m, P: F.AngularRate(g, method="integration", representation="angles", **P.get("angular", {})).W, "angles")
    add("AngularRate/rotmat", "g", lambda F, g, a, m, P: F.AngularRate(g, representation="rotmat", **P.get("angular", {})).R, "rotmat")
    add("AngularRate/angles", "g", lambda F, g, a, m, P: F.AngularRate(g, representation="angles", **P.get("angular", {})).W, "angles")
    add("Tilt/acc", "a", lambda F, g, a, m, P: F.Tilt(a).Q)
    add("Tilt/acc+mag", "am", lambda F, g, a, m, P: F.Tilt(a, m).Q)
    add("Tilt/rotmat", "am", lambda F, g, a, m, P: F.Tilt(a, m, representation="rotmat").Q, "rotmat")
    # the older spelling of the same request, still documented (module docstring and the estimate() example) and still read by the constructor
    add("Tilt/as_angles", "am", lambda F, g, a, m, P: F.Tilt(a, m, as_angles=True).Q, "angles")
    add("Tilt/angles", "am", lambda F, g, a, m, P: F.Tilt(a, m, representation="angles").Q, "angles")
    add("SAAM", "am", lambda F, g, a, m, P: F.SAAM(a, m).Q)
    add("SAAM/rotmat", "am", lambda F, g, a, m, P: F.SAAM(a, m, representation="rotmat").A, "rotmat")
    add("FAMC", "am", lambda F, g, a, m, P: F.FAMC(a, m).Q)
    add("FQA", "am", lambda F, g, a, m, P: F.FQA(a, m, **P.get("fqa", {})).Q)
    add("QUEST", "am", lambda F, g, a, m, P: F.QUEST(a, m, **P.get("dip", {})).Q)
    add("Davenport", "am", lambda F, g, a, m, P: F.Davenport(a, m, **P.get("dip", {})).Q)
    for meth in ("symbolic", "eig", "newton"):
        add("FLAE/" + meth, "am", lambda F, g, a, m, P, meth=meth: F.FLAE(a, m, method=meth, **P.get("dip", {})).Q)
    for fr in ("NED", "ENU"):
        add("OLEQ/" + fr, "am", lambda F, g, a, m, P, fr=fr: F.OLEQ(a, m, frame=fr, **P.get("oleq", {})).Q)
    add("TRIAD/rotmat", "am", lambda F, g, a, m, P: F.TRIAD(a, m, **P.get("triad", {})).A, "rotmat")
    add("TRIAD/quaternion", "am", lambda F, g, a, m, P: F.TRIAD(a, m, representation="quaternion", **P.get("triad", {})).A)
    # the per-sample entry point of the single-frame estimators (one object, estimate() called for every sample of the history)
    def per_sample(new, est=None):
        def fn(F, g, a, m, P):
            f = new(F, P)
            return np.array([np.asarray((est or (lambda f_, x, y: f_.estimate(x, y)))(f, a[t].copy(), m[t].copy()), float) for t in range(len(a))])
        return fn
    add("Tilt.estimate", "am", per_sample(lambda F, P: F.Tilt()))
    add("Tilt.estimate/acc-only", "a", per_sample(lambda F, P: F.Tilt(), lambda f_, x, y: f_.estimate(x)))
    add("SAAM.estimate", "am", per_sample(lambda F, P: F.SAAM()))
    add("FAMC.estimate", "am", per_sample(lambda F, P: F.FAMC()))
    add("FQA.estimate", "am", per_sample(lambda F, P: F.FQA(**P.get("fqa", {}))))
    add("QUEST.estimate", "am", per_sample(lambda F, P: F.QUEST(**P.get("dip", {}))))
    add("Davenport.estimate", "am", per_sample(lambda F, P: F.Davenport(**P.get("dip", {}))))
    add("FLAE.estimate/eig", "am", per_sample(lambda F, P: F.FLAE(**P.get("dip", {})), lambda f_, x, y: f_.estimate(x, y, method="eig")))
    add("AQUA.estimate", "am", per_sample(lambda F, P: F.AQUA(**P.get("aqua", {}))))
    add("TRIAD.estimate", "am", per_sample(lambda F, P: F.TRIAD(**P.get("triad", {})), lambda f_, x, y: f_.estimate(x, y, "quaternion")))
    # one instance fed sample by sample, the magnetometer present on some samples and absent on others (the update methods
    # of these filters take the sample's sensors as arguments, so the architecture may change from one sample to the next)
    def mixed(new, imu, marg):
        def fn(F, g, a, m, P):
            f = new(F, P)
            q = np.array([1.0, 0.0, 0.0, 0.0])
            with_mag = np.random.default_rng(len(a)).random(len(a)) < 0.5
            out = []
            for t in range(len(a)):
                q = (marg if with_mag[t] else imu)(f, q, g[t].copy(), a[t].copy(), m[t].copy())
                out.append(np.array(q, dtype=float))
            return np.array(out)
        return fn
    add("Madgwick/mixed-stream", "gam", mixed(lambda F, P: F.Madgwick(**P.get("madgwick", {})), lambda f, q, g, a, m: f.updateIMU(q, g, a), lambda f, q, g, a, m: f.updateMARG(q, g, a, m)))
    add("Mahony/mixed-stream", "gam", mixed(lambda F, P: F.Mahony(**P.get("mahony", {})), lambda f, q, g, a, m: f.updateIMU(q, g, a), lambda f, q, g, a, m: f.updateMARG(q, g, a, m)))
    for fr in ("NED", "ENU"):
        add("EKF/mixed-stream/" + fr, "gam", mixed(lambda F, P, fr=fr: F.EKF(frame=fr, **P.get("ekf", {}), **P.get("ekf_marg", {})),
                                                    lambda f, q, g, a, m: f.update(q, g, a), lambda f, q, g, a, m: f.update(q, g, a, m)))
    add("AQUA/mixed-stream", "gam", mixed(lambda F, P: F.AQUA(**P.get("aqua", {})), lambda f, q, g, a, m: f.updateIMU(q, g, a), lambda f, q, g, a, m: f.updateMARG(q, g, a, m)))
    return S


SPECS = _specs()
ROUTES = list(SPECS)
STEP_PROBES = [("ahrs.filters.madgwick", "Madgwick.updateIMU"), ("ahrs.filters.madgwick", "Madgwick.updateMARG"), ("ahrs.filters.mahony", "Mahony.updateIMU"),
               ("ahrs.filters.mahony", "Mahony.updateMARG"), ("ahrs.filters.ekf", "EKF.update"), ("ahrs.filters.ukf", "UKF.update"),
               ("ahrs.filters.aqua", "AQUA.updateIMU"), ("ahrs.filters.aqua", "AQUA.updateMARG"), ("ahrs.filters.aqua", "AQUA.estimate"),
               ("ahrs.filters.fourati", "Fourati.update"), ("ahrs.filters.roleq", "ROLEQ.update"), ("ahrs.filters.fkf", "FKF.kalman_update"),
               ("ahrs.filters.angular", "AngularRate.update"), ("ahrs.filters.oleq", "OLEQ.estimate"), ("ahrs.filters.quest", "QUEST.estimate"),
               ("ahrs.filters.davenport", "Davenport.estimate"), ("ahrs.filters.flae", "FLAE.estimate"), ("ahrs.filters.triad", "TRIAD.estimate"),
               ("ahrs.filters.famc", "FAMC.estimate"), ("ahrs.filters.fqa", "FQA.estimate")]
PROBES = STEP_PROBES
REQUIRED_PROBES = ["madgwick.Madgwick.updateIMU", "mahony.Mahony.updateMARG", "ekf.EKF.update", "aqua.AQUA.updateMARG", "roleq.ROLEQ.update",
                   "fourati.Fourati.update", "fkf.FKF.kalman_update", "angular.AngularRate.update"]
RULE = ("cases = one sensor history (2..80 samples) of a kind (random physically inconsistent with acc/mag >= 1 deg from parallel and magnitudes "
        "1e-2..1e3; consistent static; slowly moving; exactly level at a random heading; exactly inverted; an axis exactly vertical; pure pitch / pure roll with an exactly-zero measured component; random rows with exactly-zero components) plus one draw of "
        "parameters (defaults, or random gains / sampling rate 1 Hz..2 kHz / noise variances over 4 decades / dip +-80 deg / weights); each case "
        "drives all 46 estimator configurations; non-trivial = all")
ASSUMPTIONS = ["validity only (unit norm 1e-9, proper rotation 1e-9, finite, real, one row per sample) - accuracy is C04/C05",
               "canonical-pose failures of closed forms that divide by zero there are recorded as known findings by (estimator, pose kind)"]

_step_log = {"calls": 0, "first_bad": None}


def setup(pr):
    """Online monitor: every value returned by an update/estimate step is checked as it crosses the probe."""
    def post(name, a, k, r):
        _step_log["calls"] += 1
        if _step_log["first_bad"] is None and r is not None:
            try:
                x = np.asarray(r)
                if x.dtype != object and (np.iscomplexobj(x) or not np.all(np.isfinite(x))):
                    _step_log["first_bad"] = {"probe": name, "step_call": _step_log["calls"], "value": x.tolist() if x.size <= 9 else str(x.shape)}
            except Exception:
                pass
    for mod, qual in STEP_PROBES:
        n = pr.attach(mod, qual)
        pr.subscribe(n, post=post)


def make_history(rng, kind, n, psi=None):
    gscale = gens.logu(rng, 1e-3, 3.0) if rng.random() < 0.7 else gens.logu(rng, 1e-14, 1e-3)      # also a sensor at rest: tiny but non-zero rates
    g = rng.standard_normal((n, 3)) * gscale
    if kind == "integer":                              # raw register counts / hand-typed whole numbers; also handed over as int arrays and lists
        g = rng.integers(-3, 4, (n, 3)).astype(float)
        g[~np.any(g, axis=1)] = [1.0, 0, 0]
        a = rng.integers(-9, 10, (n, 3)).astype(float) + np.array([0, 0, 12.0])
        m = rng.integers(-40, 41, (n, 3)).astype(float) + np.array([50.0, 0, 0])
        for i in range(n):                             # keep the rows whole numbers: redraw instead of nudging
            while not (np.radians(1.0) < rq.vangle(a[i], m[i]) < np.radians(179.0)):
                m[i] = rng.integers(-40, 41, 3).astype(float) + np.array([50.0, 0, 0])
        return g, a, m
    elif kind in ("random", "sparse"):
        a = rng.standard_normal((n, 3)) * gens.logu(rng, 1e-2, 1e2)
        m = rng.standard_normal((n, 3)) * gens.logu(rng, 1e-2, 1e3)
        if kind == "sparse":                           # exactly-zero components (quantised or axis-aligned readings)
            for arr in (a, m, g):
                arr[rng.random(arr.shape) < 0.3] = 0.0
    else:
        dip = np.radians(rng.uniform(-80, 80))
        mref = np.array([np.cos(dip), 0.0, np.sin(dip)])
        fixed = psi is not None
        psi = float(rng.uniform(-np.pi, np.pi)) if psi is None else float(psi)
        if kind == "level":
            q = rq.axang2q([0, 0, 1.0], psi if (fixed or rng.random() < 0.7) else float(rng.choice([0.0, np.pi / 2, np.pi, -np.pi / 2])))
        elif kind == "inverted":
            q = rq.qmul(rq.axang2q([0, 0, 1.0], psi), rq.axang2q([1.0, 0, 0], np.pi))
        elif kind in ("pure-pitch", "pure-roll"):      # rotation about one body axis: a measured component is exactly zero
            ang = float(rng.choice([np.radians(float(rng.integers(-89, 90))), rng.uniform(-np.pi, np.pi)])) if not fixed else psi
            q = rq.axang2q([0, 1.0, 0] if kind == "pure-pitch" else [1.0, 0, 0], ang)
            if rng.random() < 0.5:
                mref = np.array([np.cos(dip), 0.0, np.sin(dip)])
        elif kind == "vertical":
            ax = [[1.0, 0, 0], [0, 1.0, 0]][int(rng.integers(2))]
            q = rq.qmul(rq.axang2q([0, 0, 1.0], psi), rq.axang2q(ax, float(rng.choice([-1, 1])) * np.pi / 2))
        elif kind == "near-special":                   # a canonical pose (level at a cardinal heading, inverted, vertical) turned by 1e-9 .. 1e-3 rad
            base = [rq.axang2q([0, 0, 1.0], float(rng.choice([0.0, np.pi / 2, np.pi, -np.pi / 2]))), rq.qmul(rq.axang2q([0, 0, 1.0], psi), rq.axang2q([1.0, 0, 0], np.pi)),
                    rq.qmul(rq.axang2q([0, 0, 1.0], psi), rq.axang2q([0, 1.0, 0], float(rng.choice([-1, 1])) * np.pi / 2))][int(rng.integers(3))]
            q = rq.qnormalize(rq.qmul(base, rq.axang2q(gens.axis(rng), gens.logu(rng, 1e-9, 1e-3))))
        else:
            q = gens.unit(rng)
        R = rq.refR(q)
        sa, sm = gens.logu(rng, 0.5, 20.0), gens.logu(rng, 1.0, 100.0)
        if kind in ("pure-pitch", "pure-roll"):
            c, s_ = np.cos(ang), np.sin(ang)       # exact zeros: build the rows from the closed form instead of a matrix product
            if kind == "pure-pitch":
                a1, m1 = np.array([-s_, 0.0, c]) * sa, np.array([c * mref[0] - s_ * mref[2], 0.0, s_ * mref[0] + c * mref[2]]) * sm
            else:
                a1, m1 = np.array([0.0, s_, c]) * sa, np.array([mref[0], s_ * mref[2], c * mref[2]]) * sm
            a, m = np.tile(a1, (n, 1)), np.tile(m1, (n, 1))
        elif kind == "moving":
            a, m = [], []
            for t in range(n):
                a.append(rq.refR(q).T @ np.array([0, 0, 1.0]) * sa)
                m.append(rq.refR(q).T @ mref * sm)
                q = rq.qnormalize(rq.qmul(q, rq.qexp_pure(g[t] * 0.005)))
            a, m = np.array(a), np.array(m)
        else:
            a = np.tile(R.T @ np.array([0, 0, 1.0]) * sa, (n, 1))
            m = np.tile(R.T @ mref * sm, (n, 1))
            if kind == "consistent":
                a = a + rng.standard_normal((n, 3)) * 0.01 * sa
                m = m + rng.standard_normal((n, 3)) * 0.01 * sm
    if kind in ("random", "consistent", "moving") and rng.random() < 0.25:
        k_ = gens.logu(rng, 1e-12, 1e12)        # both field sensors in units far from the usual ones (tesla, raw counts): a common factor, directions unchanged
        a, m = a * k_, m * k_
    for i in range(n):   # the property's domain: non-zero samples, acc and mag at least 1 degree from parallel
        if np.linalg.norm(a[i]) == 0:
            a[i] = [0, 0, 1.0]
        ang = rq.vangle(a[i], m[i])
        if ang < np.radians(1.0) or ang > np.radians(179.0) or np.linalg.norm(m[i]) == 0:
            m[i] = m[i] + np.cross(a[i], [1.0, 2.0, 3.0]) / np.linalg.norm(a[i]) * max(np.linalg.norm(m[i]), 1.0)
        if np.linalg.norm(g[i]) == 0:
            g[i] = [1e-3, 0, 0]
    return g, a, m


def respell(P, spell_dt):
    if spell_dt:
        for v in P.values():
            if isinstance(v, dict) and "frequency" in v:
                v["Dt"] = 1.0 / v.pop("frequency")
    return P


def make_params(rng, default):
    if default:
        return {}      # (the /q0 routes then use [0.7071, 0, 0.7071, 0], the value of the class docstrings)
    fr = gens.logu(rng, 1.0, 2000.0)
    dip = float(rng.uniform(-80, 80))
    q0 = gens.unit(rng)
    if rng.random() < 0.7:
        for dec_ in (int(rng.integers(4, 7)), 6, 7):    # typed with 4-7 decimals: unit only to ~1e-5, yet inside the constructors' np.allclose(norm, 1)
            qr = np.round(q0, dec_)
            if abs(np.linalg.norm(qr) - 1.0) < 8e-6:
                q0 = qr
                break
    spell_dt = bool(rng.random() < 0.5)     # the sampling step spelled Dt= instead of frequency= (every class reads both)
    return respell({"q0": q0,
        "madgwick": {"frequency": fr, "gain": gens.logu(rng, 1e-3, 10)}, "mahony": {"frequency": fr, "k_P": gens.logu(rng, 1e-2, 50), "k_I": gens.logu(rng, 1e-3, 5)},
        "ekf": {"frequency": fr, "noises": [gens.logu(rng, 1e-4, 1), gens.logu(rng, 1e-4, 1), gens.logu(rng, 1e-4, 1)]}, "ekf_marg": {"magnetic_ref": dip},
        "ukf": {"frequency": fr}, "aqua": {"frequency": fr, "alpha": gens.logu(rng, 1e-3, 1), "beta": gens.logu(rng, 1e-3, 1), "threshold": float(rng.uniform(0.5, 0.9999))},
        "fourati": {"frequency": fr, "gain": gens.logu(rng, 1e-3, 1), "magnetic_dip": dip},
        "roleq": {"frequency": fr, "magnetic_ref": dip, "weights": np.array([gens.logu(rng, 0.1, 10), gens.logu(rng, 0.1, 10)])},
        "fkf": {"frequency": fr, "sigma_g": gens.logu(rng, 1e-4, 1), "sigma_a": gens.logu(rng, 1e-4, 1), "sigma_m": gens.logu(rng, 1e-4, 1)},
        "complementary": {"frequency": fr, "gain": float(rng.uniform(0.01, 0.99))}, "angular": {"frequency": fr}, "order": int(rng.integers(0, 7)),
        "fqa": {"mag_ref": np.array([np.cos(np.radians(dip)), 0.0, np.sin(np.radians(dip))])}, "dip": {"magnetic_dip": dip},
        "oleq": {"magnetic_ref": dip, "weights": np.array([gens.logu(rng, 0.1, 10), gens.logu(rng, 0.1, 10)])}, "triad": {},
    }, spell_dt)


def boundary_params(rng, P):
    """End points of the documented parameter ranges (Complementary gain in [0, 1], non-negative weights, full AQUA gains, series order 0 / 1)."""
    P = {k: (dict(v) if isinstance(v, dict) else v) for k, v in P.items()}
    P["complementary"]["gain"] = float(rng.choice([0.0, 1.0]))
    P["aqua"]["alpha"], P["aqua"]["beta"] = 1.0, 1.0          # (0 is refused by AQUA's own argument check: not a documented value)
    w = np.array([1.0, 1.0])
    w[int(rng.integers(2))] = 0.0
    P["roleq"]["weights"], P["oleq"]["weights"] = w.copy(), w[::-1].copy()
    P["order"] = int(rng.choice([0, 1, 20, 21, 30, 66, 100, 150]))      # (any non-negative truncation order is a valid request: the terms x^k/k! only get smaller)
    return P


def generate(rng, tier, shard, nshards):
    if shard == 0:   # canonical poses every run: level at the four cardinal headings, inverted, vertical (default parameters)
        for kind, psi in [("level", 0.0), ("level", np.pi / 2), ("level", np.pi), ("level", -np.pi / 2), ("inverted", 0.0), ("inverted", 0.7), ("vertical", 0.0), ("pure-pitch", 2.5), ("pure-pitch", -0.6), ("pure-roll", 2.5)]:
            g, a, m = make_history(rng, kind, 6, psi=psi)
            yield Case("all", "hist:" + kind, g=g, a=a, m=m, P={}, default=True, seed=1)
        # magnetometer exactly along one body axis (quantised / saturated reading)
        for a1, m1 in (([-10.0, -0.18, 8.5], [0.0, -527.0, 0.0]), ([0.38, -0.17, 0.54], [0.0, 18.6, 147.8])):
            yield Case("all", "hist:sparse", g=rng.standard_normal((6, 3)) * 0.05, a=np.tile(np.array(a1), (6, 1)), m=np.tile(np.array(m1), (6, 1)), P={}, default=True, seed=1)
        # level sensor heading exactly magnetic south (exact zero east component) and the same pitched about the east axis
        for pitch in (0.0, 0.4):
            c, s_ = np.cos(pitch), np.sin(pitch)
            d = np.radians(50.0)
            a1 = np.array([-s_, 0.0, c]) * 9.8
            m1 = np.array([-(c * np.cos(d)) - s_ * np.sin(d), 0.0, -s_ * -np.cos(d) + c * np.sin(d)]) * 45.0
            g = rng.standard_normal((6, 3)) * 0.05
            yield Case("all", "hist:pure-pitch", g=g, a=np.tile(a1, (6, 1)), m=np.tile(m1, (6, 1)), P={}, default=True, seed=1)
    if shard == 0:
        # a stationary level sensor whose gyroscope reads exactly its known bias, the bias handed to the filter that takes one (Mahony's b0): the corrected
        # rate is exactly zero although the reading is not
        for bias in (np.array([0.01, -0.02, 0.005]), np.array([0.25, 0.0, 0.0])):
            yield Case("all", "hist:level", g=np.tile(bias, (6, 1)), a=np.tile(np.array([0.0, 0.0, 9.81]), (6, 1)), m=np.tile(np.array([22.0, 0.0, 41.0]), (6, 1)),
                       P={"mahony": {"b0": bias.copy()}}, default=False, seed=4)
    # long recordings of a fast-turning sensor: |rate| x sampling step between 0.3 and 6 rad per sample, hundreds to thousands of samples,
    # field samples consistent with the motion (what a filter's carried state - covariance, bias, gains - does over a long, badly conditioned run)
    for i in range(1 if tier == "quick" else gens.reps(2, tier)):
        N = int(rng.integers(500, 1300)) if tier == "quick" else int(rng.integers(500, 4000))
        x = gens.logu(rng, 0.3, 6.0) if i % 2 else gens.logu(rng, 1.5, 6.0)
        if tier == "quick" or i % 4 == 2:      # the band just below the recorded FKF finding (2.5-2.9 rad per sample, 1500 samples): the unchanged filters all survive it
            N, x = 1500, float(rng.uniform(2.5, 2.9))
        w = gens.axis(rng) * x / 0.01
        g = np.tile(w, (N, 1)) * (1.0 + 0.05 * rng.standard_normal((N, 1)))
        dip = np.radians(rng.uniform(-70, 70))
        mref = np.array([np.cos(dip), 0.0, np.sin(dip)])
        q = gens.unit(rng)
        a, m = [], []
        for t in range(N):
            Rt = rq.refR(q).T
            a.append(Rt @ np.array([0, 0, 9.81]))
            m.append(Rt @ mref * 50.0)
            q = rq.qnormalize(rq.qmul(q, rq.qexp_pure(g[t] * 0.005)))
        yield Case("all", "hist:long-fast", g=g, a=np.array(a), m=np.array(m), P={}, default=True, seed=int(rng.integers(2**31)))
    n = gens.budget(144, tier, nshards, mult=10)
    for i in range(n):
        kind = KINDS[i % len(KINDS)]
        N = int(rng.integers(2, 81))
        g, a, m = make_history(rng, kind, N)
        default = bool((i // len(KINDS)) % 2 == 0)
        P = make_params(rng, default)
        if not default and (i // (2 * len(KINDS))) % 2 == 1:      # every other random-parameter round: end points of the documented ranges
            P = boundary_params(rng, P)
        yield Case("all", "hist:" + kind, g=g, a=a, m=m, P=P, default=default, seed=int(rng.integers(2**31)))


def pose_class(a, m, needs):
    """Mechanism label of one sample: which (near-)exact coincidences it has - a component smaller than 1e-7 of the largest one (the closed
    forms that are singular AT a canonical pose lose everything to rounding within ~1e-8 rad of it).  'generic' = none."""
    tags = []
    a = np.asarray(a, float)
    if "a" in needs:
        nz = np.abs(a) > 1e-7 * np.abs(a).max()
        if nz.sum() == 1:
            tags.append("acc-level" if (nz[2] and a[2] > 0) else ("acc-inverted" if nz[2] else "acc-along-x/y"))
        elif nz.sum() == 2:
            tags.append("acc-zero-component")
    if "m" in needs and m is not None:
        m = np.asarray(m, float)
        if (np.abs(m) <= 1e-7 * np.abs(m).max()).any():
            tags.append("mag-zero-component")
        # the attitude of the east-north-up triad of (a, m) is numerically a half-turn (1 + trace lost to rounding): the pose at which a
        # trace-based matrix-to-quaternion formula divides by zero, a neighbourhood of ~1e-7 rad around e.g. every inverted pose
        if np.linalg.norm(a) > 0 and np.linalg.norm(np.cross(m, a)) > 0:
            H = np.cross(m, a)
            H = H / np.linalg.norm(H)
            z = a / np.linalg.norm(a)
            M_ = np.cross(z, H)
            if 1.0 + (H[0] + M_[1] + z[2]) < 1e-12:
                tags.append("triad-attitude-half-turn")
    return "pose:special(" + "+".join(tags) + ")" if tags else "pose:generic"


def first_failing_sample(fn, F, g, a, m, P, n):
    """Smallest k such that the run over the first k+1 samples already fails (exception or non-finite output)."""
    for k in range(n):
        kk = max(k + 1, 2)
        try:
            import warnings
            with warnings.catch_warnings():
                warnings.simplefilter("ignore")
                with np.errstate(all="ignore"):
                    out = np.asarray(fn(F, g[:kk].copy(), a[:kk].copy(), m[:kk].copy(), {kx: (dict(v) if isinstance(v, dict) else v) for kx, v in P.items()}))
            if out.dtype == object or np.iscomplexobj(out) or not np.all(np.isfinite(out.astype(float))):
                bad_rows = np.where(~np.all(np.isfinite(out.astype(float).reshape(len(out), -1)), axis=1))[0] if out.dtype != object else [k]
                return int(bad_rows[0]) if len(bad_rows) else k
        except Exception:
            return 0 if kk == 2 and k == 0 and _fails_on(fn, F, g, a, m, P, [0, 0]) else min(k, n - 1) if kk > 2 else (1 if not _fails_on(fn, F, g, a, m, P, [0, 0]) else 0)
    return None


def _fails_on(fn, F, g, a, m, P, idx):
    try:
        import warnings
        with warnings.catch_warnings():
            warnings.simplefilter("ignore")
            with np.errstate(all="ignore"):
                out = np.asarray(fn(F, g[idx].copy(), a[idx].copy(), m[idx].copy(), {kx: (dict(v) if isinstance(v, dict) else v) for kx, v in P.items()}))
        return out.dtype == object or not np.all(np.isfinite(out.astype(float)))
    except Exception:
        return True


def short_msg(exc):
    """Exception message with numbers removed (part of the mechanism key of a C03 violation)."""
    import re
    t = re.sub(r"[-+]?[0-9]+(\.[0-9]*)?(e[-+]?[0-9]+)?", " ", str(exc))
    t = re.sub(r"\bnan\b|\binf\b|[\[\]]", " ", t)
    return re.sub(r"\s+", " ", t)[:48].strip()


def validity(ctx, name, rep, val, n, region):
    try:
        x = np.asarray(val)
    except Exception:
        ctx.ok("output is an array", False, {"type": type(val).__name__}, route=name, region=region)
        return
    if x.dtype == object:
        ctx.ok("output is a numeric array (no None rows)", False, {"dtype": "object"}, route=name, region=region)
        return
    if not ctx.ok("output is real (not complex)", not np.iscomplexobj(x), {"dtype": str(x.dtype)}, route=name, region=region):
        return
    shape = {"quaternion": (n, 4), "rotmat": (n, 3, 3), "angles": (n, 3)}[rep]
    if not ctx.ok("one attitude per input sample", tuple(x.shape) == shape, {"shape": list(x.shape), "expected": list(shape)}, route=name, region=region):
        return
    x = np.array(x, float)
    fin = np.all(np.isfinite(x.reshape(n, -1)), axis=1)
    if not ctx.ok("every attitude is finite", bool(fin.all()), {"first_bad_sample": int(np.argmin(fin)), "n": n, "online": _step_log["first_bad"]}, route=name, region=region):
        return
    if rep == "quaternion":
        d = np.abs(np.linalg.norm(x, axis=1) - 1.0)
        ctx.le("every quaternion has unit norm", float(d.max()), TOL_UNIT, {"first_bad_sample": int(np.argmax(d > TOL_UNIT)), "norm": float(np.linalg.norm(x[np.argmax(d)]))}, route=name, region=region)
    elif rep == "rotmat":
        d = np.array([rq.so3_defect(R) for R in x])
        ctx.le("every matrix is a proper rotation", float(d.max()), TOL_UNIT, {"first_bad_sample": int(np.argmax(d > TOL_UNIT))}, route=name, region=region)


def check(case, ctx):
    import ahrs
    F = ahrs.filters
    g, a, m, P = case.p["g"], case.p["a"], case.p["m"], case.p["P"]
    n = len(a)
    # region label of a violation = history kind (+ parameter class), so that known findings can be keyed by pose kind
    region = case.region + ("" if case.p["default"] else "/random-params")
    ctx.note("params:" + ("default" if case.p["default"] else "random"))
    long_run = case.region == "hist:long-fast"
    if not case.p["default"] and int(case.p["seed"]) % 3 == 0:
        # computed parameters (frequency = 1/np.mean(np.diff(t)), a gain from np.sqrt): NumPy float64 scalars - a subclass of float - instead of literals
        P = {k: ({kk: (np.float64(vv) if type(vv) is float else vv) for kk, vv in v.items()} if isinstance(v, dict) else v) for k, v in P.items()}
        ctx.note("params typed as numpy.float64")
    for name, (needs, fn, rep) in SPECS.items():
        if long_run and "g" not in needs:
            continue
        _step_log["first_bad"] = None
        np.random.seed(int(case.p["seed"]))
        out = call(fn, F, g.copy(), a.copy(), m.copy(), {k: (dict(v) if isinstance(v, dict) else v) for k, v in P.items()})
        nv = len(ctx.viols)
        if not out.ok:
            ctx.returned(out, clause="no-exception[%s]" % short_msg(out.exc), route=name, region=region)
        else:
            ctx.returned(out, route=name)
            validity(ctx, name, rep, out.value, n, region)
        if case.region == "hist:integer" and out.ok:
            base = np.asarray(out.value)
            for lab, conv in (("int64", lambda x: np.round(x).astype(np.int64)), ("nested lists of int", lambda x: np.round(x).astype(np.int64).tolist())):
                np.random.seed(int(case.p["seed"]))
                o2 = call(fn, F, conv(g), conv(a), conv(m), {k: (dict(v) if isinstance(v, dict) else v) for k, v in P.items()})
                if not ctx.returned(o2, clause="no-exception[whole-number samples given as %s]" % lab, route=name, region="form:integer-typed samples"):
                    continue
                alt = np.asarray(o2.value)
                same = alt.shape == base.shape and alt.dtype != object
                if same:
                    af, bf = np.asarray(alt, float), np.asarray(base, float)
                    if rep == "quaternion" and af.ndim == 2 and af.shape[1] == 4:      # q and -q are the same attitude (an int array has no -0.0: atan2 branch cuts)
                        dd_ = np.minimum(np.abs(af - bf).max(axis=1), np.abs(af + bf).max(axis=1))
                    elif rep == "angles":
                        dd_ = np.abs((af - bf + np.pi) % (2 * np.pi) - np.pi)
                    else:
                        dd_ = np.abs(af - bf)
                    same = bool(np.all((dd_ <= 1e-12) | (np.isnan(af).any(axis=-1) & np.isnan(bf).any(axis=-1) if af.ndim == 2 and dd_.ndim == 1 else np.isnan(dd_))))
                ctx.ok("whole-number samples give the same attitudes whether typed as float, int64 or lists", same,
                       {"form": lab, "max_diff": float(np.nanmax(np.abs(np.asarray(alt, float) - np.asarray(base, float)))) if alt.shape == base.shape and alt.dtype != object else None},
                       route=name, region="form:integer-typed samples")
        if len(ctx.viols) > nv and long_run:
            bad = None
            if out.ok:
                o_ = np.asarray(out.value)
                if o_.dtype != object and o_.ndim >= 2:
                    rows = np.where(~np.all(np.isfinite(o_.astype(float).reshape(len(o_), -1)), axis=1))[0]
                    bad = int(rows[0]) if len(rows) else None
            for v in ctx.viols[nv:]:
                # (the field samples of these histories are in general position; the label carries the rate band: the unchanged FKF is only known to
                #  lose its covariance above 3 rad per sample)
                v.region = "pose:generic(long fast recording%s)" % (", above 3 rad per sample" if float(np.linalg.norm(g[0])) * 0.01 > 3.0 else "")
                if isinstance(v.detail, dict):
                    v.detail.update(first_non_finite_sample=bad, samples=n, rate_times_step=float(np.linalg.norm(g[0]) * 0.01), history=region)
        elif len(ctx.viols) > nv:
            # mechanism label: the exact coincidences (zero components) of the first sample the estimator fails on
            k = first_failing_sample(fn, F, g, a, m, P, n)
            lab = pose_class(a[k], m[k], needs) if k is not None else "pose:unknown"
            for v in ctx.viols[nv:]:
                if str(v.region).startswith("form:"):
                    continue
                v.region = lab
                if isinstance(v.detail, dict):
                    v.detail.update(failing_sample=k, acc=a[k] if k is not None else None, mag=m[k] if k is not None else None, history=region)


def extra_evidence():
    return {"online_step_monitor_calls": _step_log["calls"]}
