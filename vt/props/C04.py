"""C04 - single-frame estimators recover the attitude exactly from consistent data.

Reference-model monitor: the harness draws a true attitude, builds noise-free
measurements as images of the estimator's own reference directions (read from
the instance or passed explicitly), runs the real estimator and checks that
the rotation it returns maps the references onto the measurements in the
direction fixed by the convention table below."""
import numpy as np

from .. import forms, gens
from ..core import Case, call
from ..oracles import as_real_array
from ..ref import quat as rq

PROP = "C04"
LEVEL = "exploration"
SHARDS = {"quick": 4, "thorough": 16}
THOROUGH_DEPTH = 15      # thorough tier = this many times the base thorough budget (VERIF_DEPTH overrides)
THOROUGH_QUOTA_MULT = 3
TOL_FREE = 1e-9
TOL_GENERAL = 1e-7
G = np.array([0.0, 0.0, 1.0])


def mN(d):
    return np.array([np.cos(d), 0.0, np.sin(d)])


def mE(d):
    return np.array([0.0, np.cos(d), -np.sin(d)])


# name -> dict(cls: 'free'|'general', conv: 'fwd' (meas = E ref) | 'inv' (meas = E^T ref), tilt: bool)
TABLE = {
    "TRIAD/rotmat/NED": ("free", "fwd"), "TRIAD/rotmat/ENU": ("free", "fwd"), "TRIAD/quaternion/NED": ("general", "fwd"),
    "TRIAD/quaternion/ENU": ("general", "fwd"), "TRIAD/rotmat/NED[references assigned]": ("free", "fwd"),
    "Davenport": ("free", "inv"), "QUEST": ("general", "inv"),
    "FLAE/eig": ("free", "inv"), "FLAE/symbolic": ("general", "inv"), "FLAE/newton": ("general", "inv"),
    "OLEQ/NED": ("general", "inv"), "OLEQ/ENU": ("general", "inv"),
    "OLEQ/NED[fixed point]": ("general", "inv"), "OLEQ/ENU[fixed point]": ("general", "inv"),
    "SAAM": ("general", "fwd"), "FAMC": ("general", "inv"), "FQA": ("general", "inv"),
    "Tilt/quaternion": ("free", "inv"), "Tilt/rotmat": ("free", "inv"), "Tilt/angles": ("free", "inv"), "Tilt/acc-only": ("free", "inv"),
    "AQUA.estimate/am": ("free", "fwd"), "AQUA.estimate/acc": ("free", "fwd"), "AQUA(acc,mag)": ("free", "fwd"),
    "AQUA.init_q/am": ("free", "fwd"), "AQUA.init_q/am[object built with q0]": ("free", "fwd"), "AQUA.estimate/am[object built with q0]": ("free", "fwd"),
    "ecompass/NED/rotmat": ("free", "inv"), "ecompass/ENU/rotmat": ("free", "inv"), "ecompass/NED/quaternion": ("general", "inv"),
    "ecompass/ENU/quaternion": ("general", "inv"), "ecompass/NED/rpy": ("general", "inv"), "ecompass/NED/axisangle": ("general", "inv"),
    "am2DCM/ENU": ("free", "fwd"), "am2DCM/NED": ("free", "fwd"), "am2q/ENU": ("general", "inv"), "am2q/NED": ("general", "inv"),
    "am2angles": ("general", "inv"), "acc2q": ("free", "inv"), "Tilt/angles[acc2q, return_euler]": ("free", "inv"), "Davenport[gravity=]": ("free", "inv"),
}
# estimator objects used more than once: a first estimate on other data, then (where the class exposes its reference
# vectors as attributes) the references re-assigned, then the judged estimate
REUSE = {"TRIAD/rotmat/NED": ("v1", "v2"), "TRIAD/quaternion/ENU": ("v1", "v2"), "Davenport": ("g_q", "m_q"), "QUEST": ("g_q", "m_q"),
         "FLAE/eig": ("ref",), "FLAE/symbolic": ("ref",), "OLEQ/NED[fixed point]": ("a_ref", "m_ref"), "FQA": ("m_ref",),
         "SAAM": (), "FAMC": (), "Tilt/quaternion": (), "AQUA.estimate/am": ()}
for _n in REUSE:
    TABLE[_n + "[reused object]"] = TABLE[_n]
# the constructor given ONE sample (1-D arrays) with the same options: a secondary entry point with its own code path in several classes
CTOR1 = ["TRIAD/rotmat/NED", "TRIAD/quaternion/ENU", "Davenport", "QUEST", "FLAE/eig", "FLAE/symbolic", "FLAE/newton", "SAAM", "FAMC", "FQA", "Tilt/quaternion", "Tilt/rotmat",
         "Tilt/angles"]
for _n in CTOR1:
    TABLE[_n + "[constructor, one sample]"] = TABLE[_n]
for _wl in ("sum>1", "sum>1,unequal", "sum<1", "normalised"):
    TABLE["QUEST[weights %s]" % _wl] = ("general", "inv")
    TABLE["Davenport[weights %s]" % _wl] = ("free", "inv")
    TABLE["FLAE/eig[weights %s]" % _wl] = ("free", "inv")
TILT_ONLY = {"Tilt/acc-only", "AQUA.estimate/acc", "acc2q", "Tilt/angles[acc2q, return_euler]"}
ROUTES = list(TABLE)
REGIONS = {"general": 150, "generic": 60, "special:level": 13, "special:inverted": 7, "special:vertical": 12, "special:half-turn": 8, "special:identity": 1,
           "whole": 40, "near-special:level": 20, "near-special:inverted": 10, "near-special:vertical": 20, "near-special:half-turn": 12}
PROBES = [("ahrs.filters.triad", "TRIAD.estimate"), ("ahrs.filters.davenport", "Davenport.estimate"), ("ahrs.filters.quest", "QUEST.estimate"),
          ("ahrs.filters.flae", "FLAE.estimate"), ("ahrs.filters.oleq", "OLEQ.estimate"), ("ahrs.filters.saam", "SAAM.estimate"),
          ("ahrs.filters.famc", "FAMC.estimate"), ("ahrs.filters.fqa", "FQA.estimate"), ("ahrs.filters.tilt", "Tilt.estimate"),
          ("ahrs.filters.aqua", "AQUA.estimate"), ("ahrs.common.orientation", "ecompass"), ("ahrs.common.orientation", "am2DCM"),
          ("ahrs.common.orientation", "am2q"), ("ahrs.common.orientation", "am2angles"), ("ahrs.common.orientation", "acc2q")]
REQUIRED_PROBES = ["triad.TRIAD.estimate", "davenport.Davenport.estimate", "quest.QUEST.estimate", "flae.FLAE.estimate", "oleq.OLEQ.estimate",
                   "saam.SAAM.estimate", "famc.FAMC.estimate", "fqa.FQA.estimate", "tilt.Tilt.estimate", "aqua.AQUA.estimate",
                   "orientation.ecompass", "orientation.am2DCM", "orientation.am2q", "orientation.am2angles", "orientation.acc2q"]
RULE = ("cases = (true attitude, magnetic dip in +-80 deg, measurement scales over 5 decades, seed); attitudes: 'general position' set of the "
        "property (all |q_i| >= 0.05, angle <= pi-0.1, z-axis >= 3 deg from vertical, x-axis not vertical) for all 33 estimator routes, "
        "Haar-generic and 41 named special poses (level x 13 headings, inverted x 7, vertical x 12, half-turns x 8, identity) for the "
        "singularity-free class; non-trivial = attitude is not the identity")
ASSUMPTIONS = ["direction table (which way each estimator's rotation points, which reference vectors it uses) established on the pinned tree "
               "and its docstrings; references are read from the instance (v1/v2, g_q/m_q, ref, a_ref/m_ref, m_ref) or passed explicitly, "
               "never the import-time defaults", "an estimator's own reference pair must be >= 10 deg from collinear, else the case is skipped",
               "OLEQ's start vector is an implementation detail: the [fixed point] routes inject the true attitude as the start "
               "(np.random.random is patched for the duration of the call) to observe the fixed point of its iteration",
               "noise-free measurements are exact to rounding: tolerances 1e-9 rad (singularity-free class) and 1e-7 rad (closed-form class)"]


EXACT_DIPS = [0.0, -0.0, 80.0, -80.0, 45.0, -30.0, 60.0, 1e-9, -1e-9]


def draw_dip(rng, i):
    """magnetic dip in +-80 deg; every 5th case one of the exact values a caller would type (0 = magnetic equator included)"""
    return float(EXACT_DIPS[(i // 5) % len(EXACT_DIPS)]) if i % 5 == 0 else float(rng.uniform(-80, 80))


def generate(rng, tier, shard, nshards):
    n = gens.budget(600, tier, nshards)
    for i in range(n):
        # every 7th case: both sensors in units far from the usual ones (a common factor of 1e-12 .. 1e12: tesla, raw counts); another 7th: each sensor
        # in its own far-off unit (independent factors: the property holds "whatever the magnitudes of the two measured vectors")
        ext = gens.logu(rng, 1e-12, 1e12) if i % 7 == 3 else 1.0
        ext_m = ext * (gens.logu(rng, 1e-12, 1e12) if i % 7 == 5 else 1.0)
        sa_, sm_ = ext * gens.logu(rng, 1e-2, 1e2), ext_m * gens.logu(rng, 1e-2, 1e3)
        if i % 7 == 1:      # readings in g / a "normalised" field with a scale error of parts per billion to parts per hundred thousand: magnitudes almost, not exactly, 1
            sa_, sm_ = 1.0 + float(rng.choice([-1, 1])) * gens.logu(rng, 1e-10, 1e-5), (1.0 + float(rng.choice([-1, 1])) * gens.logu(rng, 1e-10, 1e-5)) if rng.random() < 0.7 else sm_
        yield Case("all", "general", q=gens.general_position(rng), dip=draw_dip(rng, i), sa=sa_, sm=sm_, seed=int(rng.integers(2**31)))
    for i in range(gens.budget(240, tier, nshards)):
        yield Case("free", "generic", q=gens.unit(rng), dip=draw_dip(rng, i), sa=gens.logu(rng, 1e-2, 1e2),
                   sm=gens.logu(rng, 1e-2, 1e3), seed=int(rng.integers(2**31)))
    sp = gens.special_poses()
    reps = 1 if tier == "quick" else gens.reps(3, tier)
    k = 0
    for rep in range(reps):
        for lab, q in sp:
            k += 1
            if k % nshards != shard:
                continue
            yield Case("free", "special:" + lab.split()[0], q=q, label=lab, dip=draw_dip(rng, k) if rep else 55.0,
                       sa=2.5 if not rep else gens.logu(rng, 1e-2, 1e2), sm=31.0 if not rep else gens.logu(rng, 1e-2, 1e3), seed=int(rng.integers(2**31)))
    yield from near_special(rng, tier, shard, nshards)
    for i in range(gens.budget(48, tier, nshards)):
        while True:
            ql = rng.integers(-3, 4, 4).astype(float)
            if np.any(ql[1:]) and np.any(ql):
                break
        yield Case("free", "whole", q=ql / np.linalg.norm(ql), ql=ql, label="whole-number measurements", dip=float(np.degrees(np.arctan2(4.0, 3.0))) * float(rng.choice([-1.0, 1.0])),
                   sa=1.0, sm=1.0, seed=int(rng.integers(2**31)))


def near_special(rng, tier, shard, nshards):
    """attitudes a tiny rotation (1e-9 .. 1e-3 rad) away from the canonical ones: where closed forms are singular AT the pose, the robust
    ones must still deliver full accuracy next to it"""
    sp = gens.special_poses()
    for rep in range(2 if tier == "quick" else gens.reps(6, tier)):
        for k, (lab, q) in enumerate(sp):
            if (k + rep) % nshards != shard:
                continue
            dq = rq.axang2q(gens.axis(rng), gens.logu(rng, 1e-9, 1e-3))
            yield Case("free", "near-special:" + lab.split()[0], q=rq.qnormalize(rq.qmul(q, dq) if rep % 2 else rq.qmul(dq, q)), label="near " + lab, dip=draw_dip(rng, k + 1),
                       sa=gens.logu(rng, 1e-2, 1e2), sm=gens.logu(rng, 1e-2, 1e3), seed=int(rng.integers(2**31)))


def nontrivial(case):
    return abs(abs(case.p["q"][0]) - 1.0) > 1e-12


def decode_kind(name):
    name = name.split("[")[0]
    return "matrix" if ("rotmat" in name or name.startswith("am2DCM")) else "attitude"


def decode(name, val):
    """Turn the estimator's output into the rotation matrix 'E_out' whose convention is given by TABLE."""
    name = name.split("[")[0]
    if name.endswith("/rpy"):
        a = np.asarray(val, float)
        return (rq.Rz(a[2]) @ rq.Ry(a[1]) @ rq.Rx(a[0])).T
    if name.endswith("/axisangle"):
        ax, ang = val
        return rq.rodrigues(np.asarray(ax, float), float(ang))
    if name in ("Tilt/angles", "am2angles"):
        a = np.asarray(val, float).reshape(-1)
        return rq.Rz(a[2]) @ rq.Ry(a[1]) @ rq.Rx(a[0])
    v = np.asarray(val)
    if v.shape == (3, 3):
        return np.array(v, float)
    q = np.array(v, float).reshape(-1)
    return rq.refR(q / np.linalg.norm(q))


def specs(dip_deg, seed, q_true=None, sgn=1.0):
    """name -> (g_ref, m_ref, thunk(acc, mag) -> output).  Built per case because references depend on the dip."""
    import ahrs
    from ahrs.common import orientation as o
    F = ahrs.filters
    d = np.radians(dip_deg)
    out = {}

    def sp(word, i=0):
        # frames, representations and method names are compared case-insensitively by these entry points: each case spells them one of five ways
        return gens.spell(word, int(seed) + i)
    for fr, mref in (("NED", mN(d)), ("ENU", mE(d))):
        t = F.TRIAD(v2=mref.copy(), frame=fr)
        out["TRIAD/rotmat/" + fr] = (np.array(t.v1, float), np.array(t.v2, float), lambda a, m, fr=fr, mref=mref: F.TRIAD(v2=mref.copy(), frame=sp(fr)).estimate(a, m))
        out["TRIAD/quaternion/" + fr] = (np.array(t.v1, float), np.array(t.v2, float),
                                         lambda a, m, fr=fr, mref=mref: F.TRIAD(v2=mref.copy(), frame=sp(fr, 1)).estimate(a, m, sp("quaternion", 2)))
        if fr == "NED":       # the route of TRIAD's docstring examples: references assigned to a default object after construction

            def assigned(a, m, v1=np.array(t.v1, float), v2=np.array(t.v2, float)):
                u = F.TRIAD()
                u.v1, u.v2 = v1.copy(), v2.copy()
                return u.estimate(a, m)
            out["TRIAD/rotmat/NED[references assigned]"] = (np.array(t.v1, float), np.array(t.v2, float), assigned)
    dv = F.Davenport(magnetic_dip=dip_deg)
    out["Davenport"] = (np.array(dv.g_q, float), np.array(dv.m_q, float), lambda a, m: F.Davenport(magnetic_dip=dip_deg).estimate(a, m))
    qu = F.QUEST(magnetic_dip=dip_deg)
    out["QUEST"] = (np.array(qu.g_q, float), np.array(qu.m_q, float), lambda a, m: F.QUEST(magnetic_dip=dip_deg).estimate(a, m))
    fl = F.FLAE(magnetic_dip=dip_deg)
    for meth in ("eig", "symbolic", "newton"):
        out["FLAE/" + meth] = (np.array(fl.ref[0], float), np.array(fl.ref[1], float), lambda a, m, meth=meth: F.FLAE(magnetic_dip=dip_deg).estimate(a, m, method=meth))      # FLAE validates the method name case-sensitively (a clear ValueError otherwise)
    for fr in ("NED", "ENU"):
        ol = F.OLEQ(magnetic_ref=dip_deg, frame=fr)

        def run_oleq(a, m, fr=fr):
            np.random.seed(seed)
            return F.OLEQ(magnetic_ref=dip_deg, frame=sp(fr, 4)).estimate(a, m)
        out["OLEQ/" + fr] = (np.array(ol.a_ref, float), np.array(ol.m_ref, float), run_oleq)

        def run_oleq_fp(a, m, fr=fr):
            # start injection: OLEQ draws its start vector from np.random.random(4)-0.5; hand it the true attitude so
            # that the fixed point of its iteration (not the 21-step convergence from a random start) is what is observed
            orig = np.random.random
            np.random.random = lambda n=None: q_true * sgn + 0.5
            try:
                return F.OLEQ(magnetic_ref=dip_deg, frame=fr).estimate(a, m)
            finally:
                np.random.random = orig
        out["OLEQ/%s[fixed point]" % fr] = (np.array(ol.a_ref, float), np.array(ol.m_ref, float), run_oleq_fp)
    out["SAAM"] = (G, mN(d), lambda a, m: F.SAAM().estimate(a, m))
    out["FAMC"] = (G, mN(d), lambda a, m: F.FAMC().estimate(a, m))
    fq = F.FQA(mag_ref=mN(d))
    out["FQA"] = (-G, np.array(fq.m_ref, float), lambda a, m: F.FQA(mag_ref=mN(d)).estimate(a, m))
    out["Tilt/quaternion"] = (G, mN(d), lambda a, m: F.Tilt().estimate(a, m))
    out["Tilt/rotmat"] = (G, mN(d), lambda a, m: F.Tilt().estimate(a, m, "rotmat"))
    out["Tilt/angles"] = (G, mN(d), lambda a, m: F.Tilt().estimate(a, m, "angles"))
    out["Tilt/acc-only"] = (G, mN(d), lambda a, m: F.Tilt().estimate(a))
    out["AQUA.estimate/am"] = (G, mN(d), lambda a, m: F.AQUA().estimate(a, m))
    out["AQUA.estimate/acc"] = (G, mN(d), lambda a, m: F.AQUA().estimate(a))
    # the alias of estimate(), also on an object configured with an initial attitude for its recursive use (the algebraic fix has no state to start from)
    q_cfg = np.array([0.5, -0.5, 0.5, 0.5])
    out["AQUA.init_q/am"] = (G, mN(d), lambda a, m: F.AQUA().init_q(a, m))
    out["AQUA.init_q/am[object built with q0]"] = (G, mN(d), lambda a, m: F.AQUA(q0=q_cfg.copy()).init_q(a, m))
    out["AQUA.estimate/am[object built with q0]"] = (G, mN(d), lambda a, m: F.AQUA(q0=q_cfg.copy()).estimate(a, m))
    out["AQUA(acc,mag)"] = (G, mN(d), lambda a, m: F.AQUA(np.array([a, a]), np.array([m, m])).Q[1])
    for fr, mref in (("NED", mN(d)), ("ENU", mE(d))):
        for rep in ("rotmat", "quaternion") + (("rpy", "axisangle") if fr == "NED" else ()):
            out["ecompass/%s/%s" % (fr, rep)] = (G, mref, lambda a, m, fr=fr, rep=rep: o.ecompass(a, m, frame=sp(fr, 5), representation=sp(rep, 6)))
    out["am2DCM/ENU"] = (G, mE(d), lambda a, m: o.am2DCM(a, m, frame=sp("ENU", 7)))
    out["am2DCM/NED"] = (-G, mN(d), lambda a, m: o.am2DCM(a, m, frame=sp("NED", 7)))
    out["am2q/ENU"] = (G, mE(d), lambda a, m: o.am2q(a, m, frame=sp("ENU", 8)))
    out["am2q/NED"] = (-G, mN(d), lambda a, m: o.am2q(a, m, frame=sp("NED", 8)))
    out["am2angles"] = (G, mN(d), lambda a, m: o.am2angles(a, m))
    for wl, wv in (("sum>1", np.array([1.0, 1.0])), ("sum>1,unequal", np.array([2.0, 0.7])), ("sum<1", np.array([0.3, 0.2])), ("normalised", np.array([0.8, 0.2]))):
        out["QUEST[weights %s]" % wl] = (np.array(qu.g_q, float), np.array(qu.m_q, float), lambda a, m, wv=wv: F.QUEST(magnetic_dip=dip_deg, weights=wv.copy()).estimate(a, m))
        out["Davenport[weights %s]" % wl] = (np.array(dv.g_q, float), np.array(dv.m_q, float), lambda a, m, wv=wv: F.Davenport(magnetic_dip=dip_deg, weights=wv.copy()).estimate(a, m))
        out["FLAE/eig[weights %s]" % wl] = (np.array(fl.ref[0], float), np.array(fl.ref[1], float), lambda a, m, wv=wv: F.FLAE(magnetic_dip=dip_deg, weights=wv.copy()).estimate(a, m, method="eig"))
    out["acc2q"] = (G, mN(d), lambda a, m: o.acc2q(a))
    out["Tilt/angles[acc2q, return_euler]"] = (G, mN(d), lambda a, m: np.radians(o.acc2q(a, return_euler=True)))      # roll, pitch, yaw in degrees
    out["Davenport[gravity=]"] = (np.array(dv.g_q, float), np.array(dv.m_q, float), lambda a, m: F.Davenport(magnetic_dip=dip_deg, gravity=3.71).estimate(a, m))
    # ---- constructor entry point, one 1-D sample
    ctor = {"TRIAD/rotmat/NED": lambda a, m: F.TRIAD(a, m, v2=mN(d).copy(), frame="NED").A,
            "TRIAD/quaternion/ENU": lambda a, m: F.TRIAD(a, m, v2=mE(d).copy(), frame="ENU", representation="quaternion").A,
            "Davenport": lambda a, m: F.Davenport(a, m, magnetic_dip=dip_deg).Q, "QUEST": lambda a, m: F.QUEST(a, m, magnetic_dip=dip_deg).Q,
            "FLAE/eig": lambda a, m: F.FLAE(a, m, method="eig", magnetic_dip=dip_deg).Q, "FLAE/symbolic": lambda a, m: F.FLAE(a, m, method="symbolic", magnetic_dip=dip_deg).Q,
            "FLAE/newton": lambda a, m: F.FLAE(a, m, method="newton", magnetic_dip=dip_deg).Q,
            "SAAM": lambda a, m: F.SAAM(a, m).Q, "FAMC": lambda a, m: F.FAMC(a, m).Q, "FQA": lambda a, m: F.FQA(a, m, mag_ref=mN(d)).Q,
            "Tilt/quaternion": lambda a, m: F.Tilt(a, m).Q, "Tilt/rotmat": lambda a, m: F.Tilt(a, m, representation="rotmat").Q,
            "Tilt/angles": lambda a, m: F.Tilt(a, m, representation="angles").Q}
    for nm in CTOR1:
        out[nm + "[constructor, one sample]"] = out[nm][:2] + (ctor[nm],)
    # ---- reused objects: built for another dip, used once on unrelated data, references re-assigned, then used on (a, m)
    d0 = dip_deg - 35.0 if dip_deg > 0 else dip_deg + 35.0
    # (the first TRIAD object is built in the other frame: two NED pairs differing only in dip span the same triad)
    makers = {"TRIAD/rotmat/NED": (lambda dd: F.TRIAD(v2=mN(np.radians(dd)), frame="NED") if dd == dip_deg else F.TRIAD(v2=mE(np.radians(dd)), frame="ENU"),
                                   lambda f, a, m: f.estimate(a, m)),
              "TRIAD/quaternion/ENU": (lambda dd: F.TRIAD(v2=mE(np.radians(dd)), frame="ENU") if dd == dip_deg else F.TRIAD(v2=mN(np.radians(dd)), frame="NED"),
                                       lambda f, a, m: f.estimate(a, m, "quaternion")),
              "Davenport": (lambda dd: F.Davenport(magnetic_dip=dd), lambda f, a, m: f.estimate(a, m)),
              "QUEST": (lambda dd: F.QUEST(magnetic_dip=dd), lambda f, a, m: f.estimate(a, m)),
              "FLAE/eig": (lambda dd: F.FLAE(magnetic_dip=dd), lambda f, a, m: f.estimate(a, m, method="eig")),
              "FLAE/symbolic": (lambda dd: F.FLAE(magnetic_dip=dd), lambda f, a, m: f.estimate(a, m, method="symbolic")),
              "OLEQ/NED[fixed point]": (lambda dd: F.OLEQ(magnetic_ref=dd, frame="NED"), None),
              "FQA": (lambda dd: F.FQA(mag_ref=mN(np.radians(dd))), lambda f, a, m: f.estimate(a, m)),
              "SAAM": (lambda dd: F.SAAM(), lambda f, a, m: f.estimate(a, m)), "FAMC": (lambda dd: F.FAMC(), lambda f, a, m: f.estimate(a, m)),
              "Tilt/quaternion": (lambda dd: F.Tilt(), lambda f, a, m: f.estimate(a, m)), "AQUA.estimate/am": (lambda dd: F.AQUA(), lambda f, a, m: f.estimate(a, m))}
    a0, m0 = np.array([0.3, -0.5, 0.8]) * 9.0, np.array([0.6, 0.1, -0.4]) * 40.0

    def oleq_fp(f, a, m):
        orig = np.random.random
        np.random.random = lambda n=None: q_true * sgn + 0.5
        try:
            return f.estimate(a, m)
        finally:
            np.random.random = orig
    for nm, attrs in REUSE.items():
        mk, est = makers[nm]
        est = est or oleq_fp

        def run(a, m, mk=mk, est=est, attrs=attrs):
            f = mk(d0 if attrs else dip_deg)
            est(f, a0.copy(), m0.copy())
            if attrs:
                fresh = mk(dip_deg)
                for at in attrs:
                    setattr(f, at, np.copy(getattr(fresh, at)))
            return est(f, a, m)
        out[nm + "[reused object]"] = out[nm][:2] + (run,)
    return out


def check_requested_dip(ctx, dip):
    """The references an estimator holds are the ones it was asked for: built for magnetic dip d (as float and, when d is a
    whole number, as int) its magnetic reference is inclined |d| to the horizontal plane of its own gravity reference."""
    import ahrs
    F = ahrs.filters
    forms_ = [("float", float(dip))] + ([("int", int(dip))] if float(dip) == int(dip) else [])
    for lab, d in forms_:
        for name, route, mk, refs in (("Davenport", "Davenport", lambda: F.Davenport(magnetic_dip=d), lambda f: (f.g_q, f.m_q)),
                                      ("QUEST", "QUEST", lambda: F.QUEST(magnetic_dip=d), lambda f: (f.g_q, f.m_q)),
                                      ("FLAE", "FLAE/eig", lambda: F.FLAE(magnetic_dip=d), lambda f: (f.ref[0], f.ref[1])),
                                      ("EKF", "TRIAD/rotmat/NED", None, None)):
            if mk is None:
                continue
            out = call(lambda: refs(mk()))
            if not ctx.returned(out, clause="no-exception[constructor, dip as %s]" % lab, route=route):
                continue
            g, m = (np.array(x, float) for x in out.value)
            inc = np.degrees(np.arcsin(np.clip(m @ g / (np.linalg.norm(m) * np.linalg.norm(g)), -1, 1)))
            ctx.le("estimator built for magnetic dip d holds a magnetic reference inclined |d| to its horizontal plane", abs(abs(inc) - abs(float(dip))), 1e-9,
                   {"estimator": name, "dip": d, "dip_given_as": lab, "m_ref": m, "inclination_deg": float(inc)}, route=route)


COUNTS = [3.0e2, 3.0e4, 2.5e6, 6.0e4, 1.9e9, 5.0e9, 3.0e12, 4.0e15]


def check(case, ctx):
    q, dip, sa, sm, seed = case.p["q"], case.p["dip"], case.p["sa"], case.p["sm"], int(case.p["seed"])
    Rt = rq.refR(q)
    sp_out = call(specs, dip, seed, q, 1.0 if seed % 2 else -1.0)
    if not ctx.returned(sp_out, clause="estimator construction", route="TRIAD/rotmat/NED"):
        return
    check_requested_dip(ctx, dip)
    for name, (gref, mref, fn) in sp_out.value.items():
        cls, conv = TABLE[name]
        if case.route == "free" and cls != "free":
            continue
        gh, mh = gref / np.linalg.norm(gref), mref / np.linalg.norm(mref)
        sep = rq.vangle(gh, mh)
        if min(sep, np.pi - sep) < np.radians(10.0):
            ctx.note("own reference pair closer than 10 deg to collinear: skipped (" + name.split("/")[0] + ")")
            continue
        # mechanism label for violations: reference pair exactly (or within 1e-5 deg of) orthogonal - the magnetic equator
        ctx.region_override = "refs-orthogonal(|dip|<1e-5):" + case.region.split(":")[0] if abs(90.0 - np.degrees(sep)) < 1e-5 else None
        M = Rt if conv == "fwd" else Rt.T
        acc, mag = M @ gh * sa, M @ mh * sm
        if case.region == "whole":
            n2 = float(case.p["ql"] @ case.p["ql"])
            acc_i, mag_i = np.round(acc * n2), np.round(mag * 5.0 * n2)
            if np.abs(acc_i - acc * n2).max() < 1e-9 and np.abs(mag_i - mag * 5.0 * n2).max() < 1e-9 and np.any(acc_i) and np.any(mag_i):
                acc, mag = acc_i, mag_i          # exact whole-number images of the references (rational rotation, 3-4-5 dip)
                att = decode_kind(name) != "matrix"
                forms.invariant(ctx, name, lambda x, y: fn(x, y), [acc, mag], attitude=att)
                if name.endswith("[constructor, one sample]"):
                    forms.invariant(ctx, name, lambda x, y: np.asarray(fn(x, y), float)[1], [np.array([acc, acc, acc]), np.array([mag, mag, mag])],
                                    clause="N-row constructor: the same values in another argument form give the same result", attitude=att)
        if case.region != "whole" and (int(case.p["seed"]) + len(name)) % 3 == 0:
            # raw converter counts: the two samples as whole numbers of the size a 16-, 32- or 64-bit sensor word holds (magnetometers report nano-tesla,
            # accelerometers micro-g), handed over in that integer type - the same values as float64 give the answer to compare with
            ka = int(case.p["seed"]) // 3
            Sa_, Sm_ = COUNTS[ka % len(COUNTS)], COUNTS[(ka // len(COUNTS)) % len(COUNTS)]
            acc_c, mag_c = np.round(acc / np.linalg.norm(acc) * Sa_) + 0.0, np.round(mag / np.linalg.norm(mag) * Sm_) + 0.0        # (+ 0.0: an integer has no negative zero)
            if np.any(acc_c) and np.any(mag_c):
                forms.invariant(ctx, name, lambda x, y: fn(x, y), [acc_c, mag_c], attitude=decode_kind(name) != "matrix", tol=1e-9,
                                clause="raw integer counts (int16 / int32 / int64 samples of any size the type holds) give the answer the same values give as float64")
        out = call(fn, acc.copy(), mag.copy())
        if not ctx.returned(out, route=name):
            continue
        val = out.value
        if val is None:
            ctx.ok("estimator returns an attitude", False, {"returned": None}, route=name)
            continue
        flat = np.concatenate([np.ravel(np.asarray(x)) for x in val]) if isinstance(val, tuple) else np.asarray(val)
        if as_real_array(ctx, flat, None, route=name, what="estimate") is None:
            continue
        E = decode(name, val)
        Em = E if conv == "fwd" else E.T
        err = rq.vangle(Em @ gh, acc)
        if name not in TILT_ONLY:
            err = max(err, rq.vangle(Em @ mh, mag))
        tol = TOL_FREE if cls == "free" else TOL_GENERAL
        ctx.le("estimated rotation maps the references onto the measurements", err, tol,
               {"error_rad": err, "q_true": q, "dip_deg": dip, "estimate": flat if flat.size <= 9 else None, "pose": case.p.get("label")}, route=name)
