"""C05 - recursive filters converge to the sensed attitude from any initial orientation.

Bounded-progress monitor: 'eventually converges' is restated as 'the error is
below tol(F,c) at sample N(F,c), stays below it until 1.5 N, and the final
error does not exceed the initial error'; N and tol come from the table below
(derived from each filter's gain and reference geometry, calibrated on the
pinned tree, frozen with margin).  The verdict is in samples, never in time."""
import numpy as np

from .. import filt, gens
from ..core import Case, call
from ..ref import quat as rq

PROP = "C05"
LEVEL = "exploration"
SHARDS = {"quick": 16, "thorough": 16}
THOROUGH_DEPTH = 4      # thorough tier = this many times the base thorough budget (VERIF_DEPTH overrides)
TIME_CAP = {"quick": 900, "thorough": 2400}
DEG = np.pi / 180.0

# name -> list of (label, constructor kwargs, N, tol_rad, tiers)
# N: samples granted to converge from 175 deg; tol: steady-state tolerance.
TABLE = {
    # (the documented alternative spellings of the gains - beta, gain_imu / gain_marg, kp / ki - must give a filter that converges like the primary one)
    "Madgwick/IMU": [("gain=0.4", {"gain": 0.4}, 4000, 5 * 0.4 * 0.01 + 2e-3, "qt"), ("beta=0.4", {"beta": 0.4}, 4000, 5 * 0.4 * 0.01 + 2e-3, "qt"),
                     ("gain_imu=0.4", {"gain_imu": 0.4}, 4000, 5 * 0.4 * 0.01 + 2e-3, "qt"),
                     ("default", {}, 50000, 5 * 0.033 * 0.01 + 2e-3, "t")],
    "Madgwick/MARG": [("gain=0.4", {"gain": 0.4}, 6000, 5 * 0.4 * 0.01 + 2e-3, "qt"), ("beta=0.4", {"beta": 0.4}, 6000, 5 * 0.4 * 0.01 + 2e-3, "qt"),
                      ("gain_marg=0.4", {"gain_marg": 0.4}, 6000, 5 * 0.4 * 0.01 + 2e-3, "qt"),
                      ("gain=0.041", {"gain": 0.041}, 50000, 5 * 0.041 * 0.01 + 2e-3, "t")],
    # (rows "... given" hand the filter option arrays the caller defined once and gives to every filter it builds: before the judged run another
    #  filter is built from the same arrays and run from far away, as in a loop over test cases)
    "Mahony/IMU": [("default", {}, 4000, 0.2 * DEG, "qt"), ("kP=3,kI=1", {"k_P": 3.0, "k_I": 1.0}, 3000, 0.2 * DEG, "qt"), ("kp=3,ki=1", {"kp": 3.0, "ki": 1.0}, 3000, 0.2 * DEG, "qt"),
                   ("kP=3,kI=1,b0 given", {"k_P": 3.0, "k_I": 1.0, "b0": "shared:zeros3"}, 3000, 0.2 * DEG, "qt")],
    "Mahony/MARG": [("kP=3,kI=1", {"k_P": 3.0, "k_I": 1.0}, 15000, 1.0 * DEG, "qt"), ("default", {}, 40000, 1.0 * DEG, "t"),
                    ("kP=3,kI=1,b0 given", {"k_P": 3.0, "k_I": 1.0, "b0": "shared:zeros3"}, 15000, 1.0 * DEG, "qt")],
    "EKF/IMU/NED": [("default", {}, 3000, 0.2 * DEG, "qt"), ("P and noises given", {"P": "shared:eye4", "noises": "shared:noises"}, 3000, 0.2 * DEG, "qt")],
    "EKF/IMU/ENU": [("default", {}, 3000, 0.2 * DEG, "qt")],
    "EKF/MARG/NED": [("default", {}, 12000, 0.3 * DEG, "qt"), ("magnetic_ref=field vector", {"magnetic_ref": "ref_vector_ned"}, 12000, 0.3 * DEG, "qt")],
    "EKF/MARG/ENU": [("default", {}, 12000, 0.3 * DEG, "qt"), ("magnetic_ref=field vector", {"magnetic_ref": "ref_vector_enu"}, 12000, 0.3 * DEG, "qt")],
    "UKF": [("default", {}, 6000, 1.0 * DEG, "qt")],
    "AQUA/IMU": [("default", {}, 4000, 0.1 * DEG, "qt")],
    "AQUA/IMU/adaptive": [("default", {}, 4000, 0.1 * DEG, "qt")],
    "AQUA/MARG": [("default", {}, 5000, 0.2 * DEG, "qt")],
    "AQUA/MARG/adaptive": [("default", {}, 5000, 0.2 * DEG, "qt")],
    "ROLEQ/NED": [("default", {}, None, 0.2 * DEG, "qt"), ("magnetic_ref=field vector", {"magnetic_ref": "ref_vector_ned"}, None, 0.2 * DEG, "qt")],     # N from the instance's own reference pair
    "ROLEQ/ENU": [("default", {}, None, 0.2 * DEG, "qt"), ("magnetic_ref=field vector", {"magnetic_ref": "ref_vector_enu"}, None, 0.2 * DEG, "qt")],
    # (FKF's error decays like 1/t and more slowly the steeper the dip: N raised from 4000 / 15000 after a 1 440-case run showed 2.06 deg at N = 4000 for dip 36 deg)
    "FKF": [("sigma_g=1", {"sigma_g": 1.0}, 6000, 2.0 * DEG, "qt"), ("default", {}, 22000, 2.0 * DEG, "t")],
    "Complementary/IMU": [("default", {}, 600, 0.05 * DEG, "qt"), ("gain=0.98", {"gain": 0.98}, 3000, 0.1 * DEG, "qt")],
    "Complementary/MARG": [("default", {}, 600, 0.05 * DEG, "qt")],
}
ROUTES = ["%s[%s]" % (n, lab) for n, rows in TABLE.items() for (lab, kw, N, tol, tiers) in rows if "q" in tiers]
E0_REGIONS = ["e0:175", "e0:150-175", "e0:90-150", "e0:10-90", "e0:0-10"]
REGIONS = {r: 15 for r in E0_REGIONS}
REGIONS["hold:long"] = 10
LONG_HOLD = 40000        # samples of a long recording at rest (400 s at 100 Hz): "and then stays there" for as long as the recording lasts
THOROUGH_QUOTA_MULT = 3
PROBES = [("ahrs.filters.madgwick", "Madgwick.updateIMU"), ("ahrs.filters.madgwick", "Madgwick.updateMARG"),
          ("ahrs.filters.mahony", "Mahony.updateIMU"), ("ahrs.filters.mahony", "Mahony.updateMARG"),
          ("ahrs.filters.ekf", "EKF.update"), ("ahrs.filters.ukf", "UKF.update"), ("ahrs.filters.aqua", "AQUA.updateIMU"),
          ("ahrs.filters.aqua", "AQUA.updateMARG"), ("ahrs.filters.roleq", "ROLEQ.update"), ("ahrs.filters.fkf", "FKF.kalman_update"),
          ("ahrs.filters.complementary", "Complementary.am_estimation")]
REQUIRED_PROBES = ["madgwick.Madgwick.updateIMU", "madgwick.Madgwick.updateMARG", "mahony.Mahony.updateIMU", "mahony.Mahony.updateMARG",
                   "ekf.EKF.update", "aqua.AQUA.updateIMU", "aqua.AQUA.updateMARG", "roleq.ROLEQ.update", "fkf.FKF.kalman_update",
                   "complementary.Complementary.am_estimation"]
RULE = ("cases = (filter configuration, true attitude Haar-random, initial error e0 in {175, 150-175, 90-150, 10-90, 0-10} deg about a "
        "random axis (horizontal axis for accelerometer-only variants), magnetic dip in +-70 deg, gyro noise sigma 1e-12..1e-3 rad/s realised as 3-axis Gaussian / one-axis / two-axis / quantised (exact-zero components), "
        "seed); each case is one run of 1.5 N samples (one 40 000-sample hold per configuration); streamed filters are handed the attitude as a plain array or as the "
        "library's own Quaternion object (a TypeError refusal is an answer, the case is then judged with the array); non-trivial = e0 > 1 deg")
ASSUMPTIONS = ["bounded-progress restatement: N and tol per configuration come from the filter's gain/geometry (Madgwick: N >= 4 pi/(gain dt), "
               "tol = 5 gain dt + 2e-3; ROLEQ: N from rho = (1 + 2|cos angle(refs)|)/3; others calibrated on the pinned tree, x2 in N and x5 in tol)",
               "measurement direction table of vt/filt.py (validated on the pinned tree)", "own reference pair >= 10 deg from collinear",
               "a slowdown smaller than the margin is invisible; one larger than it is reported although the filter may converge later"]


UNITS_ACC = [9.81, 9.81, 1.0, 981.0]
UNITS_MAG = [50.0, 50.0, 5.0e4, 0.5, 5.0e-5, 1.0]
GYRO_MODES = ["gaussian", "one-axis", "two-axes", "quantised", "gaussian"]


NULL_RATE_IS_NO_DATA = ("Madgwick", "Mahony", "AQUA")      # these return the a-priori attitude for an all-zero gyroscope sample (their documented "no data" guard)


def gyro_noise(rng, n, sigma, mode, keep_dead_rows=False):
    """Small-noise gyroscope realisations (all below ~4 sigma <= 4e-3 rad/s): continuous on three axes, confined to one or two
    axes (the other components exactly zero), or quantised to an LSB of sigma/2 (many exactly-zero components)."""
    G_ = rng.standard_normal((n, 3)) * sigma
    if mode == "one-axis":
        keep = int(rng.integers(3))
        G_[:, [i for i in range(3) if i != keep]] = 0.0
    elif mode == "two-axes":
        G_[:, int(rng.integers(3))] = 0.0
    elif mode == "quantised":
        lsb = sigma / 2.0
        G_ = np.round(G_ / lsb) * lsb
        dead = ~np.any(G_ != 0, axis=1)             # an all-zero sample is 'no data' for the filters with a null-rate guard: keep the realisation noisy for them
        if not keep_dead_rows:
            G_[dead, 0] = lsb
    elif mode == "at-rest" and keep_dead_rows:
        G_ = np.zeros((n, 3))                       # an ideal gyroscope on a motionless sensor: the smallest noise realisation there is
    return G_


def e0_of(rng, reg):
    return {"hold:long": lambda: float(rng.uniform(10, 90)), "e0:175": lambda: 175.0, "e0:150-175": lambda: float(rng.uniform(150, 175)), "e0:90-150": lambda: float(rng.uniform(90, 150)),
            "e0:10-90": lambda: float(rng.uniform(10, 90)), "e0:0-10": lambda: gens.logu(rng, 1e-2, 10.0)}[reg]()


def generate(rng, tier, shard, nshards):
    rows = [(n, lab) for n, rr in TABLE.items() for (lab, kw, N, tol, tiers) in rr if ("q" if tier == "quick" else "t") in tiers]
    reps = 1 if tier == "quick" else gens.reps(3, tier)
    k = 0
    for rep in range(reps):
        for (name, lab) in rows:
            for reg in E0_REGIONS + (["hold:long"] if rep == 0 else []):
                k += 1
                if k % nshards != shard:
                    continue
                yield Case("%s[%s]" % (name, lab), reg, cfg=name, label=lab, q_true=gens.unit(rng), axis=gens.axis(rng), e0_deg=e0_of(rng, reg),
                           dip_deg=float(rng.uniform(-70, 70)), gyro_sigma=gens.logu(rng, 1e-6, 1e-3) if k % 3 else gens.logu(rng, 1e-12, 1e-6), seed=int(rng.integers(2**31)),
                           gyro_mode=GYRO_MODES[k % len(GYRO_MODES)])


def nontrivial(case):
    return case.p["e0_deg"] > 1.0


def rpy_of(q):
    w, x, y, z = q
    return np.array([np.arctan2(2 * (w * x + y * z), 1 - 2 * (x * x + y * y)), np.arcsin(np.clip(2 * (w * y - z * x), -1, 1)),
                     np.arctan2(2 * (w * z + x * y), 1 - 2 * (y * y + z * z))])


STATE_FORMS = ["array", "Quaternion", "array"]        # update() documents numpy.ndarray for the attitude: lists are not demanded


def run_filter(cfg, kw, q0, G_, A, M, dip_deg, state_form="array"):
    """Run the real filter from initial attitude q0 over the history; returns (N,4)."""
    import ahrs
    kw = filt.resolve_kw(cfg, dip_deg, kw)
    if cfg.name.startswith("Complementary"):
        F = ahrs.filters
        w0 = rpy_of(q0)
        if cfg.kind == "imu":
            return np.asarray(F.Complementary(G_, A, w0=w0, **kw).Q, float)
        return np.asarray(F.Complementary(G_, A, M, w0=w0, **kw).Q, float)
    if cfg.name == "FKF":
        return np.asarray(cfg.batch(G_, A, M, **kw), float)     # first sample carries the initial attitude
    if cfg.q0_honoured and not (state_form != "array" and cfg.streams and cfg.new):
        return np.asarray(cfg.batch(G_, A, M, q0=q0, **kw), float)
    inst = cfg.new(**kw)
    return filt.stream(cfg, inst, q0, G_, A, M, state_form=state_form)


def check(case, ctx):
    p = case.p
    reg = filt.registry()
    cfg = reg[p["cfg"]]
    lab, kw, N, tol, tiers = [r for r in TABLE[p["cfg"]] if r[0] == p["label"]][0]
    dip = np.radians(p["dip_deg"])
    inst = call(lambda: cfg.new(**filt.resolve_kw(cfg, p["dip_deg"], kw)) if cfg.new else None)
    if not ctx.returned(inst, clause="construction without data"):
        return
    g_ref, m_ref = cfg.refs(inst.value, dip)
    if m_ref is not None:
        sep = rq.vangle(g_ref, m_ref)
        if min(sep, np.pi - sep) < np.radians(10):
            ctx.note("own reference pair closer than 10 deg to collinear: skipped")
            return
    if N is None:   # ROLEQ: one power-iteration step per sample, contraction rho
        a_w = np.asarray(getattr(inst.value, "a", np.ones(2)), float)
        rho = (1.0 + 2.0 * abs(np.cos(rq.vangle(g_ref, m_ref)))) / 3.0
        N = int(min(60000, max(400, 3 * np.log(tol / (10 * np.pi)) / np.log(rho))))
    rng = np.random.Generator(np.random.PCG64(int(p["seed"])))
    qt = p["q_true"]
    e0 = np.radians(p["e0_deg"])
    ax = p["axis"]
    if cfg.kind == "imu":   # tilt error of exactly e0: rotate about an axis perpendicular to the gravity reference
        gh = g_ref / np.linalg.norm(g_ref)
        ax = ax - gh * (gh @ ax)
        ax /= np.linalg.norm(ax)
    d = rq.axang2q(ax, e0)
    q0 = rq.qnormalize(rq.qmul(d, qt) if cfg.conv == "T" else rq.qmul(qt, d))
    # sensor units: m/s^2, g or milli-g for the accelerometer; micro-tesla, nano-tesla, gauss, tesla or a unit vector for the magnetometer
    # (the readings are exact images of the reference *directions*; which unit the sensor reports in must not matter)
    ua, um = UNITS_ACC[int(p["seed"]) % len(UNITS_ACC)], UNITS_MAG[(int(p["seed"]) // 7) % len(UNITS_MAG)]
    if "adaptive" in cfg.name:
        ua = 9.81       # AQUA's adaptive gain is a function of | |acc| - g | by design: its accelerometer must report in m/s^2
    acc, mag = cfg.measurements(qt, g_ref, m_ref, sa=ua, sm=um)
    n_tot = int(1.5 * N) + 1
    if case.region == "hold:long":
        n_tot = max(n_tot, LONG_HOLD + 1)
    keep_dead = not cfg.name.startswith(NULL_RATE_IS_NO_DATA)
    mode_ = p.get("gyro_mode", "gaussian")
    if keep_dead and mode_ == "two-axes" and int(p["seed"]) % 2:
        mode_ = "at-rest"
    G_ = gyro_noise(rng, n_tot, p["gyro_sigma"], mode_, keep_dead_rows=keep_dead)
    A = np.tile(acc, (n_tot, 1))
    M = None if mag is None else np.tile(mag, (n_tot, 1))
    if cfg.name == "FKF" or (not cfg.streams and not cfg.name.startswith("Complementary")):
        a0, m0 = cfg.measurements(q0, g_ref, m_ref, sa=ua, sm=um)
        A[0] = a0
        if M is not None:
            M[0] = m0
    shared = any(isinstance(v, str) and v.startswith("shared:") for v in kw.values())
    if shared:
        # another filter built from the same option arrays runs first, started 170 deg away (its state winds up); the caller's arrays are theirs:
        # the judged filter must start from the options as given
        filt.pool_changed()
        far = rq.qnormalize(rq.qmul(rq.axang2q(ax, np.radians(170.0)), qt) if cfg.conv == "T" else rq.qmul(qt, rq.axang2q(ax, np.radians(170.0))))
        pre = call(run_filter, cfg, kw, far, G_[:300], A[:300], None if M is None else M[:300], p["dip_deg"])
        if not ctx.returned(pre, clause="no-exception[earlier filter built from the same option arrays]"):
            filt.pool_changed()
            return
    # the streamed filters are handed the attitude as a plain array, as the library's own Quaternion object (each returned attitude wrapped again)
    sform = STATE_FORMS[(int(p["seed"]) // 3) % len(STATE_FORMS)]
    out = call(run_filter, cfg, kw, q0, G_, A, M, p["dip_deg"], sform)
    if sform != "array" and not out.ok and isinstance(out.exc, TypeError):
        # update() documents a numpy.ndarray: a filter that refuses the object with a TypeError has answered; what is demanded is that it never
        # takes the object and silently computes something else.  The case is then judged with the plain array.
        ctx.note("attitude handed over as a %s object refused with a TypeError by %s: judged with the plain array" % (sform, cfg.name))
        sform = "array"
        out = call(run_filter, cfg, kw, q0, G_, A, M, p["dip_deg"], sform)
    if shared:
        bad = filt.pool_changed()
        if bad:
            ctx.note("option arrays written to by the filter: " + ",".join(bad))
    if not ctx.returned(out):
        return
    Q = np.asarray(out.value)
    if not ctx.ok("one finite quaternion per sample", Q.shape == (n_tot, 4) and np.isrealobj(Q) and bool(np.all(np.isfinite(Q))),
                  {"shape": list(Q.shape), "first_bad": int(np.argmin(np.all(np.isfinite(Q), axis=1))) if Q.ndim == 2 and Q.dtype.kind == "f" else None}):
        return
    if cfg.kind == "imu":
        err = np.array([cfg.tilt_error(Q[i], acc, g_ref) for i in _idx(n_tot, N)])
    else:
        err = np.array([rq.qang(Q[i], qt) for i in _idx(n_tot, N)])
    idx = _idx(n_tot, N)
    e_start = err[0]
    tail = err[idx >= N]
    detail = {"N": N, "tol_deg": np.degrees(tol), "e0_deg": p["e0_deg"], "units(acc, mag)": [ua, um], "attitude handed to update() as": sform, "err_deg@[0,N/4,N/2,N,1.25N,1.5N]":
              [round(float(np.degrees(err[np.searchsorted(idx, k)])), 5) for k in (0, N // 4, N // 2, N, int(1.25 * N), n_tot - 1)], "dip_deg": p["dip_deg"]}
    if cfg.name == "FKF" and abs(p["dip_deg"]) > 40.0:
        # FKF weights the heading by the horizontal field only: its convergence time grows without practical bound for steep dips
        ctx.region_override = case.region + "/steep-dip"
    ctx.le("initial error is the requested one (harness self-check)", abs(e_start - e0), 1e-6 + (2e-2 if cfg.name == "FKF" else 0.0), detail)
    ctx.le("error below the filter's tolerance at sample N", float(err[np.searchsorted(idx, N)]), tol, detail)
    ctx.le("error stays below the tolerance from N to 1.5 N", float(tail.max()), tol, detail)
    ctx.le("final error does not exceed the initial error", float(err[-1]), e0 + tol, detail)
    _samples.append({"route": case.route, "e0_deg": p["e0_deg"], **{k: v for k, v in detail.items() if k.startswith("err")}})


_samples = []


def extra_evidence():
    return {"error_trajectories": _samples[:12]}


def _idx(n_tot, N):
    """Sample indices at which the error is evaluated: a coarse grid plus every sample of a window after N."""
    base = np.unique(np.r_[0, np.linspace(0, n_tot - 1, 400).astype(int), N // 4, N // 2, N, int(1.25 * N), n_tot - 1,
                           np.arange(N, min(n_tot, N + 50))])
    return base
