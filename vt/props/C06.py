"""C06 - batch run equals sample-by-sample streaming; filters are deterministic and isolated.

History checkers over recorded runs of the real filters: batch vs stream,
repeat (same process and a fresh process), per-instance sub-histories under
random interleavings of several instances (an interleaving is correct iff every
instance's sub-history equals its isolated run), and a shared-state monitor
(module globals, class attributes, function defaults, the global NumPy RNG)."""
import json
import os
import subprocess
import sys

import numpy as np

from .. import filt, gens
from ..core import Case, call, enc
from ..ref import quat as rq

PROP = "C06"
LEVEL = "exploration"
SHARDS = {"quick": 4, "thorough": 16}
THOROUGH_DEPTH = 40      # thorough tier = this many times the base thorough budget (VERIF_DEPTH overrides)
TOL_BS = 1e-13
STREAMERS = ["Madgwick/IMU", "Madgwick/MARG", "Mahony/IMU", "Mahony/MARG", "EKF/IMU/NED", "EKF/IMU/ENU", "EKF/MARG/NED", "EKF/MARG/ENU", "UKF",
             "AQUA/IMU", "AQUA/MARG", "AQUA/IMU/adaptive", "AQUA/MARG/adaptive", "Fourati", "ROLEQ/NED", "ROLEQ/ENU"]
EXTRA = ["AngularRate/closed", "AngularRate/series", "OLEQ", "FLAE",
         # batch-only filters and estimators: no streamed twin, but runs must still be repeatable and independent of what ran before
         "Complementary/IMU", "Complementary/MARG", "FKF", "Tilt", "Tilt/acc-only", "SAAM", "FAMC", "FQA", "QUEST", "Davenport", "TRIAD", "AQUA/static"]
ROUTES = ["batch-vs-stream:" + n for n in STREAMERS + ["AngularRate/closed", "AngularRate/series"]] + \
         ["repeat:" + n for n in STREAMERS + EXTRA] + ["interleave", "fresh-process", "shared-state", "threads"]
REGIONS = {"bs:default-params": 60, "bs:explicit-params": 60, "interleave:2": 10, "interleave:3-4": 10, "process": 2, "threads": 8}
PROBES = [("ahrs.filters.madgwick", "Madgwick.updateIMU"), ("ahrs.filters.madgwick", "Madgwick.updateMARG"),
          ("ahrs.filters.mahony", "Mahony.updateIMU"), ("ahrs.filters.mahony", "Mahony.updateMARG"), ("ahrs.filters.ekf", "EKF.update"),
          ("ahrs.filters.ukf", "UKF.update"), ("ahrs.filters.aqua", "AQUA.updateIMU"), ("ahrs.filters.aqua", "AQUA.updateMARG"),
          ("ahrs.filters.fourati", "Fourati.update"), ("ahrs.filters.roleq", "ROLEQ.update"), ("ahrs.filters.angular", "AngularRate.update"),
          ("ahrs.filters.oleq", "OLEQ.estimate"), ("ahrs.filters.flae", "FLAE.estimate")]
REQUIRED_PROBES = ["madgwick.Madgwick.updateIMU", "madgwick.Madgwick.updateMARG", "mahony.Mahony.updateIMU", "mahony.Mahony.updateMARG",
                   "ekf.EKF.update", "aqua.AQUA.updateIMU", "aqua.AQUA.updateMARG", "fourati.Fourati.update", "roleq.ROLEQ.update",
                   "angular.AngularRate.update", "oleq.OLEQ.estimate", "flae.FLAE.estimate"]
RULE = ("bs cases: one random sensor history (5..60 samples, acc/mag >= 5 deg from parallel, gyro 1e-3..3 rad/s) per filter configuration with "
        "default or explicit parameters (gains, frequency, noises, dip): constructor run vs update() stream from Q[0], both repeated; "
        "explicit array-valued parameters (q0, b0, P, weights) are created once per case and the same objects are passed to every run and instance; interleave cases: 2..4 instances (same and different classes) with their own histories and a random schedule of update calls; "
        "process cases: one batch run repeated in a fresh interpreter; the shared-state monitor wraps every case; non-trivial = all")
ASSUMPTIONS = ["batch and stream run the same update code: equality to 1e-13 (AngularRate batch re-normalises once more), repeats and sub-histories bit-identical",
               "the only permitted shared-state write is consumption of the global NumPy RNG by OLEQ.estimate (and by ROLEQ's OLEQ start)",
               "UKF raising LinAlgError on a history is C03's business: a run where batch and stream raise the same exception type at the same sample counts as equal"]


def history(rng, n):
    g = rng.standard_normal((n, 3)) * gens.logu(rng, 1e-3, 3.0)
    a = rng.standard_normal((n, 3)) * 3 + np.array([0, 0, 9.8]) * float(rng.choice([1, 0.3]))
    m = rng.standard_normal((n, 3)) * 5 + gens.axis(rng) * 45.0
    for i in range(n):
        if np.linalg.norm(a[i]) < 0.1:
            a[i] += [0, 0, 1.0]
        ang = rq.vangle(a[i], m[i])
        if ang < np.radians(5) or ang > np.radians(175):
            m[i] = m[i] + np.cross(a[i], [1.0, 2.0, 3.0])
    return g, a, m


def params_for(rng, name, explicit, spell_dt=None, none_k=None):
    kw = _params_for(rng, name, explicit)
    coin = rng.random() < 0.5
    if "frequency" in kw and (coin if spell_dt is None else spell_dt):       # the sampling step spelled as Dt instead of frequency (both spellings for every filter on every run)
        kw["Dt"] = 1.0 / kw.pop("frequency")
    if none_k is not None:      # (batch-vs-stream cases: on a fixed schedule - every repetition hands one of the None-default options over as None, to the default or the explicit run in turn)
        rng.random()
        if (none_k + int(explicit)) % 2 == 1:
            for pref, names in NONE_DEFAULTS.items():
                if name.startswith(pref):
                    kw[names[none_k % len(names)]] = None
                    if none_k % 3 == 2:
                        for n_ in names:
                            kw[n_] = None
    elif rng.random() < 0.3:      # options whose default is None handed over explicitly as None (a caller forwarding cfg.get('gain')): the same as leaving them out
        for pref, names in NONE_DEFAULTS.items():
            if name.startswith(pref):
                for n_ in names:
                    if rng.random() < 0.6:
                        kw[n_] = None
    return kw


NONE_DEFAULTS = {"Madgwick": ["gain", "beta"], "Mahony": ["b0", "q0"], "EKF/MARG": ["magnetic_ref", "q0"], "EKF/IMU": ["q0"], "Fourati": ["magnetic_dip"], "ROLEQ": ["weights", "magnetic_ref", "q0"],
                 "AQUA": ["q0"]}


def _params_for(rng, name, explicit):
    if not explicit:
        return {}
    fr = gens.logu(rng, 10.0, 500.0)
    if name == "Madgwick/IMU":
        return {"frequency": fr, "gain": gens.logu(rng, 1e-2, 1.0), "q0": gens.unit(rng)}
    if name.startswith("Madgwick"):
        return {"frequency": fr, "gain": gens.logu(rng, 1e-2, 1.0)}
    if name.startswith("Mahony"):      # b0 / q0 arrays: the SAME ndarray objects are handed to every run of the case
        return {"frequency": fr, "k_P": gens.logu(rng, 0.1, 10), "k_I": gens.logu(rng, 0.01, 2), "b0": rng.standard_normal(3) * 1e-2, "q0": gens.unit(rng)}
    if name.startswith("EKF"):
        kw = {"frequency": fr, "noises": [gens.logu(rng, 1e-3, 1), gens.logu(rng, 1e-3, 1), gens.logu(rng, 1e-3, 1)], "P": np.eye(4) * gens.logu(rng, 0.1, 2.0), "q0": gens.unit(rng)}
        if "MARG" in name:
            kw["magnetic_ref"] = float(rng.uniform(-70, 70))
        return kw
    if name.startswith("AQUA"):
        return {"frequency": fr, "alpha": gens.logu(rng, 1e-3, 0.5), "beta": gens.logu(rng, 1e-3, 0.5), "threshold": float(rng.uniform(0.6, 0.99)), "q0": gens.unit(rng)}
    if name == "Fourati":
        return {"frequency": fr, "gain": gens.logu(rng, 1e-2, 1.0), "magnetic_dip": float(rng.uniform(-70, 70))}
    if name.startswith("ROLEQ"):
        return {"frequency": fr, "magnetic_ref": float(rng.uniform(-70, 70)), "weights": rng.uniform(0.5, 2.0, 2), "q0": gens.unit(rng)}
    if name == "UKF":
        return {"frequency": fr, "P": np.eye(4) * 0.01}
    return {}


def generate(rng, tier, shard, nshards):
    reps = 3 if tier == "quick" else gens.reps(12, tier)
    k = 0
    for rep in range(reps):
        for name in STREAMERS + EXTRA:
            for explicit in (False, True):
                k += 1
                if k % nshards != shard:
                    continue
                n = int(rng.integers(5, 61))
                g, a, m = history(rng, n)
                if rep % 3:            # sensor drop-outs (all-zero rows after the first sample): the fall-back paths must also be the same in both modes
                    for arr in ((m,) if rep % 3 == 1 else ((a,), (a, m))[(k // 2) % 2]):   # every configuration sees a magnetometer-only drop-out
                        arr[rng.choice(np.arange(1, n), size=min(n - 1, int(rng.integers(1, 4))), replace=False)] = 0.0
                yield Case("bs", "bs:explicit-params" if explicit else "bs:default-params", cfg=name, kw=params_for(rng, name, explicit, spell_dt=(rep % 2 == 0), none_k=rep),
                           g=g, a=a, m=m, seed=int(rng.integers(2**31)), order=(2 * rep + int(explicit)) % 7)
    for i in range(gens.budget(24, tier, nshards, mult=6)):
        kinst = 2 if i % 2 == 0 else int(rng.integers(3, 5))
        names = [str(rng.choice(STREAMERS)) for _ in range(kinst)]
        if i % 4 == 0:
            names[1] = names[0]        # two instances of the same class
        hs = [history(rng, int(rng.integers(4, 25))) for _ in range(kinst)]
        sched = np.concatenate([np.full(len(h[0]) - 1, j) for j, h in enumerate(hs)])
        rng.shuffle(sched)
        yield Case("interleave", "interleave:2" if kinst == 2 else "interleave:3-4", names=names, kws=[params_for(rng, nm, bool(rng.integers(2))) for nm in names],
                   G=[h[0] for h in hs], A=[h[1] for h in hs], M=[h[2] for h in hs], schedule=sched.astype(int), seed=int(rng.integers(2**31)))
    # concurrent threads: 2-3 instances of ONE class (what instances of a class could share: class attributes, module-level scratch, default
    # arguments), each with its own history, each in its own thread with forced thread switches at statement boundaries inside the library
    for i, name in enumerate(STREAMERS):
        if i % nshards != shard:
            continue
        for rep in range(1 if tier == "quick" else gens.reps(2, tier)):
            kinst = 2 + (i + rep) % 2
            hs = [history(rng, int(rng.integers(6, 16))) for _ in range(kinst)]
            yield Case("threads", "threads", names=[name] * kinst, kws=[params_for(rng, name, bool(rng.integers(2))) for _ in range(kinst)],
                       G=[h[0] for h in hs], A=[h[1] for h in hs], M=[h[2] for h in hs], seed=int(rng.integers(2**31)))
    for i in range(1 if tier == "quick" else 2):
        name = STREAMERS[(shard * 3 + i) % len(STREAMERS)]
        g, a, m = history(rng, 20)
        yield Case("process", "process", cfg=name, kw={}, g=g, a=a, m=m, seed=int(rng.integers(2**31)))


# ---------------------------------------------------------------- shared state
def snapshot():
    """Bytes of every piece of state shared between instances: ndarray / Generator / dict-of-number module globals of ahrs.*,
    ndarray class attributes and ndarray function defaults, and the global NumPy RNG."""
    import types
    snap = {}
    for mname, mod in list(sys.modules.items()):
        if not mname.startswith("ahrs") or mod is None:
            continue
        for k, v in list(vars(mod).items()):
            key = mname + "." + k
            if isinstance(v, np.ndarray):
                snap[key] = v.tobytes()
            elif isinstance(v, np.random.Generator):
                snap[key] = json.dumps(enc(v.bit_generator.state), sort_keys=True)
            elif isinstance(v, dict) and v and all(isinstance(x, (int, float, str)) for x in v.values()) and not k.startswith("__"):
                snap[key] = repr(sorted(v.items()))
            elif isinstance(v, type) and getattr(v, "__module__", "") == mname:
                for ak, av in list(vars(v).items()):
                    if isinstance(av, np.ndarray):
                        snap[key + "." + ak] = av.tobytes()
                    f = getattr(av, "__wrapped__", av)
                    if isinstance(f, types.FunctionType) and f.__defaults__:
                        for i, dv in enumerate(f.__defaults__):
                            if isinstance(dv, (np.ndarray, list, dict)):
                                snap["%s.%s.__defaults__[%d]" % (key, ak, i)] = repr(dv) if not isinstance(dv, np.ndarray) else dv.tobytes()
            else:
                f = getattr(v, "__wrapped__", v)
                if isinstance(f, types.FunctionType) and f.__defaults__ and getattr(f, "__module__", "") == mname:
                    for i, dv in enumerate(f.__defaults__):
                        if isinstance(dv, (np.ndarray, list, dict)):
                            snap["%s.__defaults__[%d]" % (key, i)] = repr(dv) if not isinstance(dv, np.ndarray) else dv.tobytes()
    st = np.random.get_state()
    snap["numpy.random global state"] = (st[0], st[1].tobytes(), st[2], st[3], st[4])
    return snap


_BASELINE = {}


def setup(pr):
    """Pristine shared state, recorded once per process before any case runs."""
    import ahrs  # noqa: F401
    _BASELINE.clear()
    _BASELINE.update(snapshot())


RNG = "numpy.random global state"


def shared_state_clause(ctx, before, after, rng_allowed):
    """Module/class/default state is compared with the pristine state of the process (an idempotent leak must still
    be seen when the case is re-executed); the global RNG is compared with its state right after the harness seeded it."""
    base = _BASELINE or before
    changed = [k for k in after if k != RNG and base.get(k) != after[k]]
    changed += [k for k in base if k != RNG and k not in after]
    if not rng_allowed and before.get(RNG) != after.get(RNG):
        changed.append(RNG)
    ctx.ok("no shared state is written by running a filter", not changed, {"changed": changed[:8]}, route="shared-state")


# ---------------------------------------------------------------- runners
def run_batch(name, kw, g, a, m, seed=None, order=3):
    import ahrs
    F = ahrs.filters
    if seed is not None:
        np.random.seed(seed)
    if name == "AngularRate/closed":
        return np.asarray(F.AngularRate(g.copy(), **kw).Q, float)
    if name == "AngularRate/series":
        return np.asarray(F.AngularRate(g.copy(), method="series", order=order, **kw).Q, float)
    if name == "OLEQ":
        return np.asarray(F.OLEQ(a.copy(), m.copy(), **kw).Q, float)
    if name == "FLAE":
        return np.asarray(F.FLAE(a.copy(), m.copy(), **kw).Q, float)
    batch_only = {"Complementary/IMU": lambda: F.Complementary(g.copy(), a.copy(), **kw).Q, "Complementary/MARG": lambda: F.Complementary(g.copy(), a.copy(), m.copy(), **kw).Q,
                  "FKF": lambda: F.FKF(g.copy(), a.copy(), m.copy(), **kw).Q, "Tilt": lambda: F.Tilt(a.copy(), m.copy()).Q, "Tilt/acc-only": lambda: F.Tilt(a.copy()).Q,
                  "SAAM": lambda: F.SAAM(a.copy(), m.copy()).Q, "FAMC": lambda: F.FAMC(a.copy(), m.copy()).Q, "FQA": lambda: F.FQA(a.copy(), m.copy()).Q,
                  "QUEST": lambda: F.QUEST(a.copy(), m.copy()).Q, "Davenport": lambda: F.Davenport(a.copy(), m.copy()).Q, "TRIAD": lambda: F.TRIAD(a.copy(), m.copy()).A,
                  "AQUA/static": lambda: F.AQUA(a.copy(), m.copy()).Q}
    if name in batch_only:
        return np.asarray(batch_only[name](), float)
    cfg = filt.registry()[name]
    return np.asarray(cfg.batch(g.copy(), a.copy(), m.copy(), **kw), float)


def run_stream(name, kw, q0, g, a, m, seed=None, order=3, explicit_dt=False, feed_raw=False):
    """explicit_dt: the instance is built WITHOUT its sampling rate (it keeps the class default) and the step is handed to every update(dt=...) call."""
    import ahrs
    F = ahrs.filters
    if seed is not None:
        np.random.seed(seed)
    dt = None
    if explicit_dt:
        kw = dict(kw)
        dt = kw.pop("Dt") if "Dt" in kw else (1.0 / kw.pop("frequency") if "frequency" in kw else 0.01)
    if name.startswith("AngularRate"):
        f = F.AngularRate(**kw)
        Q = [np.array(q0, float)]
        k_ = {} if dt is None else {"dt": dt}
        for t in range(1, len(g)):
            Q.append(np.asarray(f.update(Q[-1], g[t].copy(), **k_) if name.endswith("closed") else f.update(Q[-1], g[t].copy(), method="series", order=order, **k_), float))
        return np.array(Q)
    if False:
        f = F.AngularRate(**kw)
        Q = [np.array(q0, float)]
        for t in range(1, len(g)):
            Q.append(np.asarray(f.update(Q[-1], g[t].copy()) if name.endswith("closed") else f.update(Q[-1], g[t].copy(), method="series", order=order), float))
        return np.array(Q)
    cfg = filt.registry()[name]
    inst = cfg.new(**kw)
    return filt.stream(cfg, inst, q0, g.copy(), a.copy(), m.copy(), dt=dt, feed_raw=feed_raw)


def outcome_equal(o1, o2):
    """Two Outcomes describe the same behaviour: equal arrays, or the same exception type."""
    if o1.ok != o2.ok:
        return False, "one run raised (%s), the other did not" % (o1.exc_name or o2.exc_name)
    if not o1.ok:
        return o1.exc_name == o2.exc_name, "%s vs %s" % (o1.exc_name, o2.exc_name)
    return bool(np.array_equal(np.asarray(o1.value), np.asarray(o2.value), equal_nan=True)), "arrays differ"


def check_bs(case, ctx):
    p = case.p
    name, kw, g, a, m, seed, order = p["cfg"], dict(p["kw"]), p["g"], p["a"], p["m"], int(p["seed"]), int(p["order"])
    np.random.seed(seed)          # the harness' own (re-)seeding must not show up as a shared-state write
    before = snapshot()
    b1 = call(run_batch, name, kw, g, a, m, seed, order)
    if name == "UKF" and not b1.ok and b1.exc_name == "LinAlgError":
        # UKF's covariance breaks down on many histories (a recorded C03 finding): the comparison is then made on the longest head of the recording
        # it survives (half, a quarter, ... down to three samples), so that the batch and streamed UKF are compared in every case
        for kcut in [k_ for k_ in (len(g) // 2, len(g) // 4, 6, 4, 3) if 3 <= k_ < len(g)]:
            bt = call(run_batch, name, kw, g[:kcut], a[:kcut], m[:kcut], seed, order)
            if bt.ok:
                ctx.note("UKF raised LinAlgError on the full history: judged on its first %d samples" % kcut)
                g, a, m, b1 = g[:kcut], a[:kcut], m[:kcut], bt
                break
    if name in EXTRA:        # something else runs in between (fills and frees memory of the same sizes)
        call(run_batch, "Complementary/MARG", {}, g[::-1] * 3.0, a[::-1] + 0.5, m[::-1] * 2.0, seed, order)
        _ = [np.full((len(g), 3), 7.5) for _ in range(3)]
        del _
    b2 = call(run_batch, name, kw, g, a, m, seed, order)
    r = "repeat:" + name
    eq, why = outcome_equal(b1, b2)
    ctx.ok("repeating the batch run gives bit-identical output", eq, {"why": why}, route=r)
    if name.startswith("AngularRate"):
        # the class's public helper (the reference integration its docstring offers for comparison) called by hand on the recording the caller
        # holds, then the run repeated on that very recording: the same attitudes
        import ahrs as _ahrs
        g_held = g.copy()
        hp = call(lambda: _ahrs.filters.AngularRate().integrate_angular_positions(g_held, 0.01, ["angles", "quaternion", "rotmat"][seed % 3]))
        if hp.ok:
            b3 = call(run_batch, name, kw, g_held, a, m, seed, order)
            eq3, why3 = outcome_equal(b1, b3)
            ctx.ok("a run on the recording after integrate_angular_positions() was called on it by hand gives the same attitudes", eq3, {"why": why3}, route=r)
    if name == "UKF" and not b1.ok and b1.exc_name == "LinAlgError":
        ctx.note("UKF raised LinAlgError on this history (C03): batch-vs-stream not evaluated")
    elif name in STREAMERS or name.startswith("AngularRate"):
        r2 = "batch-vs-stream:" + name
        dropouts = bool((~np.any(a, axis=1)).any() or (~np.any(m, axis=1)).any())
        if dropouts:
            ctx.note("history with drop-outs")
        if dropouts and not b1.ok and isinstance(b1.exc, ValueError):
            ctx.note("batch run refused a dropped-out sample with ValueError (C13's business): values not compared")
            # ... but refusing is behaviour too: the streamed updates, started from the attitude the batch run gives the clean head of the recording,
            # must refuse the recording as well
            first_bad = int(np.argmax((~np.any(a, axis=1)) | (~np.any(m, axis=1))))
            if first_bad >= 2:
                head = call(run_batch, name, kw, g[:first_bad], a[:first_bad], m[:first_bad], seed, order)
                if head.ok:
                    st_ = call(run_stream, name, kw, np.asarray(head.value)[0], g, a, m, seed, order)
                    ctx.ok("a recording the batch run refuses with ValueError is refused by the streamed updates too", (not st_.ok) and isinstance(st_.exc, ValueError),
                           {"batch": str(b1.exc)[:80], "stream": "returned %d attitudes" % len(np.asarray(st_.value)) if st_.ok else "%s: %s" % (st_.exc_name, str(st_.exc)[:80])}, route=r2)
        elif ctx.returned(b1, clause="batch run", route=r2):
            B = b1.value
            if ctx.ok("batch output has one quaternion per sample", B.shape == (len(g), 4), {"shape": list(B.shape)}, route=r2):
                s1 = call(run_stream, name, kw, B[0], g, a, m, seed, order)
                s2 = call(run_stream, name, kw, B[0], g, a, m, seed, order)
                if ctx.returned(s1, clause="streaming the same samples through update()", route=r2):
                    S = np.asarray(s1.value, float)
                    if ctx.ok("stream output has one quaternion per sample", S.shape == B.shape, {"shape": list(S.shape)}, route=r2):
                        if np.all(np.isfinite(B)) and np.all(np.isfinite(S)):
                            d = np.abs(B - S).max(axis=1)
                            t_bad = int(np.argmax(d > TOL_BS)) if (d > TOL_BS).any() else -1
                            ctx.le("batch run = sample-by-sample stream from the same initial attitude", float(d.max()), TOL_BS,
                                   {"first_differing_sample": t_bad, "batch": B[t_bad], "stream": S[t_bad], "params": kw}, route=r2)
                        else:
                            ctx.ok("batch and stream agree on where values are non-finite", np.array_equal(np.isfinite(B), np.isfinite(S)), route=r2)
                    eq, why = outcome_equal(s1, s2)
                    ctx.ok("repeating the stream gives bit-identical output", eq, {"why": why}, route=r)
                # the recording itself (rows handed over as views of the caller's arrays, the way a loop over a log does): streaming must leave it
                # as it was - otherwise the next filter run on the same recording sees other data
                if name in STREAMERS:
                    def shared_():
                        gg, aa_, mm = g.copy(), a.copy(), m.copy()
                        cfg_ = filt.registry()[name]
                        filt.stream(cfg_, cfg_.new(**kw), B[0], gg, aa_, mm)
                        return [nm_ for nm_, x_, y_ in (("gyr", gg, g), ("acc", aa_, a), ("mag", mm, m)) if not np.array_equal(x_, y_, equal_nan=True)]
                    s5 = call(shared_)
                    if s5.ok:
                        ctx.ok("streaming a recording row by row leaves the caller's recording as it was", not s5.value, {"changed": s5.value}, route=r2)
                # the idiom q = f.update(q, ...): whatever object update() returns is handed straight back as the next a-priori attitude
                if name in STREAMERS:
                    s4 = call(run_stream, name, kw, B[0], g, a, m, seed, order, False, True)
                    if ctx.returned(s4, clause="streaming with the returned object fed straight back", route=r2) and s1.ok:
                        S4 = np.asarray(s4.value, float)
                        S1_ = np.asarray(s1.value, float)
                        # (to the batch-vs-stream tolerance, not bit for bit: an update that skips re-normalising an object it returned itself differs in the last bits)
                        d4 = float(np.nanmax(np.abs(S4 - S1_))) if S4.shape == S1_.shape and np.array_equal(np.isnan(S4), np.isnan(S1_)) else float("inf")
                        ctx.le("feeding update()'s own return value back gives the same stream as feeding plain arrays", d4, TOL_BS, {"shape": list(S4.shape)}, route=r2)
                # the other way of telling a streamed filter its sampling step: a bare instance and dt handed to every update() call
                s3 = call(run_stream, name, kw, B[0], g, a, m, seed, order, True)
                if ctx.returned(s3, clause="streaming through update(dt=...) on an instance built without its rate", route=r2):
                    S3 = np.asarray(s3.value, float)
                    if S3.shape == B.shape and np.all(np.isfinite(B)) and np.all(np.isfinite(S3)):
                        d3 = np.abs(B - S3).max(axis=1)
                        ctx.le("batch run = stream with the step passed as update(dt=...)", float(d3.max()), TOL_BS,
                               {"first_differing_sample": int(np.argmax(d3 > TOL_BS)) if (d3 > TOL_BS).any() else -1, "params": kw}, route=r2)
    if name.startswith("ROLEQ") and b1.ok:
        # the one random draw is the start vector of the OLEQ solution for the first sample: a run that is GIVEN its start attitude (q0= to the
        # constructor, or the first argument of update()) has nothing left to draw, and leaves NumPy's global stream where it was - so that a
        # random-start estimator running after it gets the numbers it would have got without it
        def rng_key():
            st = np.random.get_state()
            return (st[1].tobytes(), st[2], st[3], st[4])
        np.random.seed(seed)
        k0 = rng_key()
        B0 = np.asarray(b1.value, float)[0].copy()
        for lab_, thunk in (("constructor with q0=", lambda: run_batch(name, dict(kw, q0=B0.copy()), g, a, m, seed, order)),
                            ("update() fed sample by sample", lambda: run_stream(name, kw, B0, g, a, m, seed, order))):
            o_ = call(thunk)
            if o_.ok:
                ctx.ok("a run given its start attitude draws nothing from NumPy's global random stream", rng_key() == k0, {"run": lab_}, route="shared-state")
    after = snapshot()
    shared_state_clause(ctx, before, after, rng_allowed=(name in ("OLEQ",) or name.startswith("ROLEQ")))


def check_interleave(case, ctx):
    p = case.p
    names, kws, Gs, As, Ms, sched = p["names"], [dict(k) for k in p["kws"]], p["G"], p["A"], p["M"], [int(s) for s in p["schedule"]]
    reg = filt.registry()
    k = len(names)
    np.random.seed(int(p["seed"]))
    before = snapshot()

    def isolated(j):
        np.random.seed(int(p["seed"]))
        B = run_batch(names[j], kws[j], Gs[j], As[j], Ms[j])
        return B[0], run_stream(names[j], kws[j], B[0], Gs[j], As[j], Ms[j])
    iso = [call(isolated, j) for j in range(k)]
    if any((not o.ok) for o in iso):
        if all((o.ok or (names[j] == "UKF" and o.exc_name == "LinAlgError")) for j, o in enumerate(iso)):
            ctx.note("an isolated UKF run raised LinAlgError (C03): interleaving case skipped")
            return
        for j, o in enumerate(iso):
            ctx.returned(o, clause="isolated run of " + names[j], route="interleave")
        return

    def interleaved():
        insts = [reg[names[j]].new(**kws[j]) for j in range(k)]
        Q = [[np.array(iso[j].value[0], float)] for j in range(k)]
        t = [1] * k
        for j in sched:
            cfg = reg[names[j]]
            Q[j].append(np.array(cfg.step(insts[j], Q[j][-1], Gs[j][t[j]].copy(), As[j][t[j]].copy(), Ms[j][t[j]].copy()), float))
            t[j] += 1
        return [np.array(x) for x in Q]
    out = call(interleaved)
    if ctx.returned(out, clause="interleaved run", route="interleave"):
        for j in range(k):
            same = np.array_equal(out.value[j], iso[j].value[1], equal_nan=True)
            ctx.ok("each instance's outputs equal its isolated run under any interleaving", same,
                   {"instance": j, "filter": names[j], "others": names, "max_diff": float(np.nanmax(np.abs(out.value[j] - iso[j].value[1]))) if out.value[j].shape == iso[j].value[1].shape else None},
                   route="interleave")
    shared_state_clause(ctx, before, snapshot(), rng_allowed=any(n.startswith("ROLEQ") for n in names))


_thread_stats = {"runs": 0, "alternations": 0, "yields": 0}


def check_threads(case, ctx):
    """Each instance in its own thread.  A trace function installed in every worker yields the interpreter (time.sleep(0)) at a seeded random
    third of the statement boundaries executed inside the tree under test, so thread switches land inside the update methods."""
    import sys as _sys
    import threading
    import time
    p = case.p
    names, kws, Gs, As, Ms = p["names"], [dict(k) for k in p["kws"]], p["G"], p["A"], p["M"]
    reg = filt.registry()
    k = len(names)
    root = os.path.realpath(os.environ.get("AHRS_TREE", "/repo"))

    def isolated(j):
        B = run_batch(names[j], kws[j], Gs[j], As[j], Ms[j])
        return B[0], run_stream(names[j], kws[j], B[0], Gs[j], As[j], Ms[j])
    iso = [call(isolated, j) for j in range(k)]
    if any((not o.ok) for o in iso):
        if all((o.ok or (names[j] == "UKF" and o.exc_name == "LinAlgError")) for j, o in enumerate(iso)):
            ctx.note("an isolated UKF run raised LinAlgError (C03): threads case skipped")
            return
        for j, o in enumerate(iso):
            ctx.returned(o, clause="isolated run of " + names[j], route="threads")
        return

    def threaded(rep):
        insts = [reg[names[j]].new(**kws[j]) for j in range(k)]
        Q = [[np.array(iso[j].value[0], float)] for j in range(k)]
        order, errs, yields = [], [], [0] * k
        gate = threading.Barrier(k)

        def work(j):
            r_ = np.random.Generator(np.random.PCG64(int(p["seed"]) + 1000 * rep + j))
            coins = r_.random(4096) < 0.33
            n_ = [0]

            def line_tracer(frame, event, arg):
                if event == "line":
                    n_[0] += 1
                    if coins[n_[0] % 4096]:
                        yields[j] += 1
                        time.sleep(0)
                return line_tracer

            def tracer(frame, event, arg):
                return line_tracer if frame.f_code.co_filename.startswith(root) else None
            try:
                cfg = reg[names[j]]
                gate.wait()
                _sys.settrace(tracer)
                for t in range(1, len(Gs[j])):
                    order.append(j)
                    Q[j].append(np.array(cfg.step(insts[j], Q[j][-1], Gs[j][t].copy(), As[j][t].copy(), Ms[j][t].copy()), float))
            except Exception as e:      # noqa: BLE001
                errs.append("%s: %s" % (type(e).__name__, str(e)[:80]))
            finally:
                _sys.settrace(None)
        old_ = _sys.getswitchinterval()
        _sys.setswitchinterval(1e-6)
        try:
            ths = [threading.Thread(target=work, args=(j,)) for j in range(k)]
            for th in ths:
                th.start()
            for th in ths:
                th.join(300)
        finally:
            _sys.setswitchinterval(old_)
        return [np.array(x) for x in Q], sum(1 for x, y in zip(order[:-1], order[1:]) if x != y), errs, sum(yields)
    for rep in range(3):
        out = call(threaded, rep)
        if not ctx.returned(out, clause="threaded run", route="threads"):
            continue
        Qt, alternations, errs, ny = out.value
        _thread_stats["runs"] += 1
        _thread_stats["alternations"] += alternations
        _thread_stats["yields"] += ny
        if errs:
            ctx.ok("an instance run in its own thread raises nothing its isolated run did not", False, {"errors": errs[:3], "filters": names}, route="threads")
            continue
        for j in range(k):
            same = Qt[j].shape == iso[j].value[1].shape and np.array_equal(Qt[j], iso[j].value[1], equal_nan=True)
            ctx.ok("each instance's outputs equal its isolated run when instances of the class run in concurrent threads", same,
                   {"instance": j, "filter": names[j], "instances": k, "yields_injected": ny, "alternations_between_updates": alternations,
                    "max_diff": float(np.nanmax(np.abs(Qt[j] - iso[j].value[1]))) if Qt[j].shape == iso[j].value[1].shape else None}, route="threads")


CHILD = r"""
import sys, json, numpy as np
sys.path.insert(0, sys.argv[1]); sys.path.insert(1, sys.argv[2])
from vt.core import dec
from vt.props import C06
d = dec(json.load(open(sys.argv[3])))
try:
    B = C06.run_batch(d['cfg'], d['kw'], d['g'], d['a'], d['m'], d['seed'])
    print(np.asarray(B, float).tobytes().hex())
except Exception as e:
    print("EXC:" + type(e).__name__)
"""


def check_process(case, ctx):
    p = case.p
    here = call(run_batch, p["cfg"], dict(p["kw"]), p["g"], p["a"], p["m"], int(p["seed"]))
    # (a run that raises - UKF's LinAlgError on valid histories is C03's finding - must raise the same in a fresh process: equal behaviour is what is judged here)
    from ..core import VERIF
    work = os.path.join(VERIF, ".work")
    os.makedirs(work, exist_ok=True)
    fn = os.path.join(work, "c06-%d-%d.json" % (os.getpid(), int(p["seed"])))
    with open(fn, "w") as f:
        json.dump(enc({k: p[k] for k in ("cfg", "kw", "g", "a", "m", "seed")}), f)
    try:
        env = dict(os.environ, PYTHONHASHSEED=str(int(p["seed"]) % 1000))
        r = subprocess.run([sys.executable, "-c", CHILD, os.environ.get("AHRS_TREE", "/repo"), VERIF, fn], capture_output=True, text=True, timeout=300, env=env)
    finally:
        os.remove(fn)
    if not ctx.ok("fresh interpreter ran", r.returncode == 0, {"stderr": r.stderr[-400:]}, route="fresh-process"):
        return
    last = r.stdout.strip().splitlines()[-1]
    if not here.ok or last.startswith("EXC:"):
        ctx.ok("a run that raises here raises the same exception in a fresh process (and the other way round)", (not here.ok) and last == "EXC:" + here.exc_name,
               {"here": here.exc_name if not here.ok else "returned", "fresh_process": last[:60]}, route="fresh-process")
        ctx.note("run raised %s in both processes (validity is C03's business)" % (here.exc_name if not here.ok else last))
        return
    other = np.frombuffer(bytes.fromhex(r.stdout.strip().splitlines()[-1]), dtype=float).reshape(np.asarray(here.value).shape)
    ctx.ok("a fresh process (different hash seed) gives bit-identical output", np.array_equal(other, np.asarray(here.value, float), equal_nan=True), route="fresh-process")


def check(case, ctx):
    {"bs": check_bs, "interleave": check_interleave, "process": check_process, "threads": check_threads}[case.route](case, ctx)


def extra_evidence():
    return {"threaded_runs": _thread_stats["runs"], "thread_alternations_between_updates_observed": _thread_stats["alternations"],
            "thread_yields_injected_inside_the_library": _thread_stats["yields"]}
