"""C07 - array (vectorised) entry points equal the scalar entry points row by row.

Differential monitor: each N-row call of the real code is compared with the
single-item call of the real code on every row (no sign freedom - both sides
are the same computation, written twice)."""
import numpy as np

from .. import forms, gens
from ..core import Case, call
from ..ref import quat as rq

PROP = "C07"
LEVEL = "exploration"
SHARDS = {"quick": 2, "thorough": 16}
THOROUGH_DEPTH = 15      # thorough tier = this many times the base thorough budget (VERIF_DEPTH overrides)
TOL_CONV = 1e-13     # plain conversions: reassociation in the vectorised copy
TOL_EST = 1e-11      # estimator copies (closed forms that cancel)
DCM_METHODS = [("shepperd", {}), ("hughes", {}), ("chiaverini", {}), ("itzhack", {"version": 1}), ("itzhack", {"version": 2}),
               ("itzhack", {"version": 3}), ("sarabandi", {})]
CONV_ROUTES = ["to_DCM", "to_DCM[S]", "conjugate", "conjugate[S]", "to_angles", "from_rpy", "q2R.v1", "q2R.v2", "DCM.from_quaternion", "rpy2q",
               "hughes(N,3,3)", "chiaverini(N,3,3)", "ned2enu", "am2angles"] + \
              ["from_DCM/" + m + ("%d" % kw["version"] if kw else "") for m, kw in DCM_METHODS]
METRIC_ROUTES = ["chordal", "qdist", "qeip", "qcip", "qad"]
EST_ROUTES = ["Tilt/quaternion", "Tilt/angles", "Tilt/rotmat", "Tilt/acc-only", "SAAM/quaternion", "SAAM/rotmat", "FAMC", "FQA",
              "QUEST", "Davenport", "FLAE/symbolic", "FLAE/eig", "FLAE/newton", "TRIAD/rotmat/NED", "TRIAD/quaternion/NED",
              "TRIAD/rotmat/ENU", "TRIAD/quaternion/ENU", "TRIAD/rotmat/NED[references assigned]", "TRIAD/quaternion/NED[references assigned]", "AQUA/am/NED", "AQUA/am/ENU", "AQUA/acc/NED", "OLEQ/NED", "OLEQ/ENU"]
ROUTES = CONV_ROUTES + METRIC_ROUTES + EST_ROUTES
BRANCH_CUT_ROUTES = {"Tilt/quaternion", "Tilt/angles", "Tilt/acc-only", "am2angles", "to_angles", "AQUA/am/NED", "AQUA/am/ENU", "AQUA/acc/NED", "FQA", "SAAM/quaternion"}
REGIONS = {"rows:generic": 30, "rows:special": 30, "rows:one": 30, "metric:generic": 30, "metric:close": 30, "metric:exact": 30, "est:generic": 30, "est:one": 30, "est:scaled": 30,
           "rows:integer": 20, "est:integer": 20}
REGIONS_FIXED = {"long": 1}
PROBES = [("ahrs.common.quaternion", "QuaternionArray.to_DCM"), ("ahrs.common.quaternion", "QuaternionArray.from_DCM"),
          ("ahrs.common.quaternion", "QuaternionArray.from_rpy"), ("ahrs.common.quaternion", "QuaternionArray.to_angles"),
          ("ahrs.common.orientation", "hughes"), ("ahrs.common.orientation", "chiaverini"), ("ahrs.common.orientation", "q2R"),
          ("ahrs.filters.tilt", "Tilt._compute_all"), ("ahrs.filters.tilt", "Tilt.estimate"),
          ("ahrs.filters.saam", "SAAM._compute_all"), ("ahrs.filters.saam", "SAAM.estimate"),
          ("ahrs.filters.flae", "FLAE.estimate"), ("ahrs.filters.aqua", "AQUA.estimate"), ("ahrs.filters.triad", "TRIAD.estimate"),
          ("ahrs.filters.famc", "FAMC.estimate"), ("ahrs.filters.fqa", "FQA.estimate"), ("ahrs.filters.quest", "QUEST.estimate"),
          ("ahrs.filters.davenport", "Davenport.estimate"), ("ahrs.filters.oleq", "OLEQ.estimate")]
REQUIRED_PROBES = ["tilt.Tilt._compute_all", "tilt.Tilt.estimate", "saam.SAAM._compute_all", "saam.SAAM.estimate", "flae.FLAE.estimate",
                   "quaternion.QuaternionArray.from_DCM", "orientation.hughes", "orientation.chiaverini"]
RULE = ("rows cases: N in 1..8 quaternion / matrix / angle rows mixing Haar-generic rows with half-turns, near-identity (1e-9..1e-3), "
        "near-pi, axis-in-coordinate-plane and identity rows; metric cases: row pairs at generic and small (1e-3..1e-1) relative angles and exact pairs (identical, antipodal, exactly orthogonal = half a turn apart, from small-integer quaternions); "
        "est cases: N in 1..6 accelerometer/magnetometer rows (random directions >= 5 deg from parallel, magnitudes over 5 decades, "
        "consistent poses), each estimator x method x representation x frame constructed on N rows vs estimate() per row, and the "
        "one-sample constructor vs estimate() with the same options; non-trivial = all")
ASSUMPTIONS = ["both sides are the library's own code; tolerance 1e-13 (conversions) / 1e-11 (estimators) absorbs reassociation between "
               "the two hand-written copies", "closed-form from_DCM methods are paired only on rows with angle <= pi-1e-6 (C02's domain)",
               "metric single-vs-batch pairs use relative angles >= 1e-4 (C18's domain): below ~2e-5 the single branch's allclose shortcut returns exactly 0",
               "OLEQ draws its start vector from the global NumPy RNG: batch and per-row runs are compared after the same np.random.seed, rows in order"]


def rows_quats(rng, n, special):
    out = []
    for i in range(n):
        reg = str(rng.choice(["tiny", "half_axis", "half_oblique", "half_zero_comp", "nearpi", "coordplane", "identity", "small"])) if special and i % 2 == 0 else "generic"
        out.append(gens.quat_in(rng, reg) if reg != "generic" else gens.unit(rng))
    return np.array(out)


def consistent_am(rng, n):
    a, m = [], []
    dip = np.radians(rng.uniform(-75, 75))
    for _ in range(n):
        R = rq.refR(gens.general_position(rng))
        a.append(R.T @ np.array([0, 0, 1.0]) * gens.logu(rng, 1e-2, 1e2))
        m.append(R.T @ np.array([np.cos(dip), 0, np.sin(dip)]) * gens.logu(rng, 1e-2, 1e3))
    return np.array(a), np.array(m)


def random_am(rng, n):
    a = np.array([gens.vec3(rng, 1e-2, 1e2) for _ in range(n)])
    m = []
    for i in range(n):
        while True:
            v = gens.vec3(rng, 1e-2, 1e3)
            ang = rq.vangle(a[i], v)
            if np.radians(5) < ang < np.radians(175):
                break
        m.append(v)
    return a, np.array(m)


def integer_am(rng, n):
    a, m = [], []
    for _ in range(n):
        while True:
            x, y = rng.integers(-9, 10, 3).astype(float), rng.integers(-60, 61, 3).astype(float)
            if np.any(x) and np.any(y) and np.radians(5) < rq.vangle(x, y) < np.radians(175) and abs(x[2]) != np.linalg.norm(x):
                break
        a.append(x)
        m.append(y)
    return np.array(a), np.array(m)


def generate(rng, tier, shard, nshards):
    n = gens.budget(150, tier, nshards)
    for i in range(n):
        reg = ["rows:generic", "rows:special", "rows:one"][i % 3]
        N = 1 if reg == "rows:one" else [2, 3, 4, 5, 8, 4, 3, 7][(i // 3) % 8]      # N = 3 and N = 4 (the vector / quaternion dimension itself) every run
        Q = rows_quats(rng, N, reg != "rows:generic")
        ang = np.c_[rng.uniform(-np.pi, np.pi, N), rng.uniform(-np.pi / 2 + 1e-3, np.pi / 2 - 1e-3, N), rng.uniform(-np.pi, np.pi, N)]
        if i % 2:       # unwrapped angles (compass headings 0..360, rolls beyond +-180): anything in [-2 pi, 2 pi] is accepted by both entry points
            k_ = rng.random((N, 3)) < 0.4
            k_[:, 1] = False
            ang = ang + np.where(k_, 2 * np.pi * np.sign(-ang), 0.0)
        a, m = random_am(rng, N)
        yield Case("rows", reg, Q=Q, angles=ang, V=rng.standard_normal((N, 3)) * gens.logu(rng, 1e-2, 1e3), a=a, m=m)
    for i in range(n):
        reg = ["metric:generic", "metric:close", "metric:exact"][i % 3]
        N = [1, 2, 3, 4, 6, 4, 3, 5][(i // 3) % 8]
        Q1 = gens.unit(rng, N).reshape(N, 4)
        if reg == "metric:exact":      # exactly orthogonal (half a turn apart), identical and antipodal rows built from exact small-integer quaternions
            E = np.array([[1, 0, 0, 0], [0, 1, 0, 0], [0, 0, 1, 0], [0, 0, 0, 1], [1, 1, 0, 0], [1, -1, 0, 0], [1, 1, 1, 1], [1, -1, 1, -1], [1, 1, -1, -1], [0, 1, 1, 0], [0, 1, -1, 0]], float)
            idx = rng.integers(0, len(E), (N, 2))
            Q1, Q2 = E[idx[:, 0]].copy(), E[idx[:, 1]].copy()
        elif reg == "metric:close":
            Q2 = np.array([rq.qmul(q, rq.axang2q(gens.axis(rng), gens.logu(rng, 1e-3, 1e-1))) for q in Q1])
        else:
            Q2 = gens.unit(rng, N).reshape(N, 4)
        yield Case("metric", reg, Q1=Q1, Q2=Q2 * rng.choice([-1.0, 1.0], N)[:, None])
    # whole-number rows (what a caller types by hand or reads from a raw integer sensor register): the batch entry points are also
    # driven with the same values as integer arrays and nested lists
    for i in range(gens.budget(40, tier, nshards)):
        N = int(rng.integers(1, 6))
        Q = rng.integers(-4, 5, (N, 4)).astype(float)
        Q[np.all(Q == 0, axis=1)] = [1, 0, 0, 0]
        ang = rng.integers(-3, 4, (N, 3)).astype(float)
        ang[:, 1] = np.clip(ang[:, 1], -1, 1)
        V = rng.integers(-50, 51, (N, 3)).astype(float)
        a, m = integer_am(rng, N)
        yield Case("rows", "rows:integer", Q=Q, angles=ang, V=V, a=a, m=m)
        a, m = integer_am(rng, N)
        yield Case("est", "est:integer", a=a, m=m, dip=float(rng.choice([0.0, 30.0, -45.0, 60.0, 66.0])), seed=int(rng.integers(2**31)))
    if shard == 0:      # one long array per run
        yield Case("long", "long", N=20000 if tier == "quick" else 60000, seed=int(rng.integers(2**31)))
    for i in range(n):
        reg = ["est:generic", "est:one", "est:scaled"][i % 3]
        N = 1 if reg == "est:one" else [2, 3, 4, 6, 3, 5][(i // 3) % 6]
        a, m = consistent_am(rng, N) if reg == "est:scaled" or i % 2 else random_am(rng, N)
        yield Case("est", reg, a=a, m=m, dip=float(rng.uniform(-75, 75)), seed=int(rng.integers(2**31)))


def sensitivity(fn, *args, rel=1e-13, trials=3):
    """Measured rounding sensitivity of fn at args: largest output change under elementwise relative input perturbations of `rel`,
    expressed per unit of machine epsilon.  Used only to decide whether a difference above the flat tolerance is explained by the
    conditioning of the function at that input (both entry points evaluate the same formula in a different order)."""
    rng = np.random.default_rng(12345)
    base = call(fn, *[x.copy() for x in args])
    if not base.ok:
        return 0.0
    b = np.asarray(base.value, float)
    worst = 0.0
    for _ in range(trials):
        pert = [x * (1.0 + rel * rng.uniform(-1, 1, x.shape)) for x in args]
        o = call(fn, *pert)
        if o.ok and np.asarray(o.value).shape == b.shape:
            worst = max(worst, float(np.nanmax(np.abs(np.asarray(o.value, float) - b))))
    worst = worst / rel * 2.2e-16
    # cancellation inside the formula (a closed form whose raw result is a small difference of O(1) terms, normalised afterwards) does not show under
    # input perturbation: the map itself is smooth there.  It shows when the samples are rescaled - the same directions, every rounding inside redrawn.
    # (used only when the change is itself small: an estimator that is not scale-free is not excused by this)
    if len(args) == 2 and all(np.ndim(x) == 1 for x in args):
        for ca, cm in ((3.0, 7.0), (1.0 / 3.0, 0.1), (1.7, 1.0 / 7.0)):
            o = call(fn, args[0] * ca, args[1] * cm)
            if o.ok and np.asarray(o.value).shape == b.shape:
                ch = float(np.nanmax(np.abs(np.asarray(o.value, float) - b)))
                if ch < 1e-7:
                    worst = max(worst, ch / 20.0)
    return worst


def cmp_rows(ctx, route, batch_out, singles, tol, what="batch row = single item", sens=None):
    """batch_out: Outcome of the N-row call; singles: list of Outcomes per row."""
    if not batch_out.ok and any((not so.ok) and so.exc_name == batch_out.exc_name for so in singles):
        # the single-item entry point fails in the same way on one of the rows: the two entry points agree; whether the item
        # should have been accepted at all is C03 / C11's business
        ctx.note("batch and single-item call raise the same %s: equal behaviour, not judged here" % batch_out.exc_name)
        return
    if not ctx.returned(batch_out, route=route):
        return
    B = np.asarray(batch_out.value)
    if not ctx.ok("batch result is a real array with one row per item", B.dtype != object and not np.iscomplexobj(B) and len(B) == len(singles),
                  {"shape": list(B.shape), "dtype": str(B.dtype), "rows": len(singles)}, route=route):
        return
    worst, detail = 0.0, None
    for i, so in enumerate(singles):
        if not so.ok and isinstance(so.exc, ValueError) and "Quaternion values must be" in str(so.exc) and i < len(B) and np.asarray(B[i]).dtype.kind == "f" \
                and bool(np.all(np.isnan(np.asarray(B[i], float)))):
            # the item has no attitude in either entry point: the single-item call refuses the NaN / zero quaternion of a singular pose, the batch marks
            # the row with NaN (C03's recorded findings for the closed-form estimators; since fa25758 a recording keeps its other rows)
            ctx.note("row without an attitude in both entry points (single item refused, batch row NaN): equal behaviour, C03's business")
            continue
        if not ctx.returned(so, clause="no-exception (single item)", route=route):
            return
        s = np.asarray(so.value, dtype=float)
        b = np.asarray(B[i], dtype=float)
        if s.shape != b.shape:
            ctx.ok("row shape equals single-item shape", False, {"row": list(b.shape), "single": list(s.shape)}, route=route)
            return
        scale = max(1.0, float(np.abs(s).max())) if s.size else 1.0
        d = float(np.abs(b - s).max() / scale) if np.all(np.isfinite(s)) and np.all(np.isfinite(b)) else (0.0 if np.array_equal(np.isnan(s), np.isnan(b)) else float("inf"))
        if d > tol and route in BRANCH_CUT_ROUTES and np.all(np.isfinite(s)) and np.all(np.isfinite(b)):
            # outputs of the atan2-based estimators sit on a branch cut when a heading is exactly +-pi (whole-number samples): +pi and -pi,
            # q and -q are the same attitude; the two entry points may legitimately land on different sides
            if s.shape == (4,):
                d = min(d, float(np.abs(b + s).max()))
            elif s.shape == (3,):
                w = np.abs((b - s + np.pi) % (2 * np.pi) - np.pi)
                d = min(d, float(np.minimum(w, np.abs(b - s)).max()))
            if d <= tol:
                ctx.note("rows equal as attitudes across the +-pi branch cut (sign of q / heading +-pi)")
        if d > tol and sens is not None and np.isfinite(d):
            allow = 200.0 * sens(i)             # 200 roundings' worth of the measured sensitivity
            if d <= allow:
                ctx.note("difference above the flat tolerance but within the measured rounding sensitivity at an ill-conditioned input")
                d = tol * d / allow
        if d >= worst:
            worst, detail = d, {"row": i, "batch": b, "single": s}
    ctx.le(what, worst, tol, detail, route=route)


def Outcome_ok(v):
    from ..core import Outcome
    return Outcome(True, v)


def _derived():
    import copy
    return [(".copy()", lambda X: X.copy()), ("copy.copy()", copy.copy), ("copy.deepcopy()", copy.deepcopy), (".view()", lambda X: X.view()), ("full slice [:]", lambda X: X[:])]


DERIVED = _derived()


def check_rows(case, ctx):
    import ahrs
    from ahrs.common import orientation as o
    from ahrs.common import frames
    from ahrs.common.dcm import DCM
    Q, ang, V, a, m = (case.p[k] for k in ("Q", "angles", "V", "a", "m"))
    N = len(Q)
    QS = np.c_[Q[:, 1:], Q[:, 0]]
    Qn, QA = ahrs.Quaternion, ahrs.QuaternionArray
    cmp_rows(ctx, "to_DCM", call(lambda: QA(Q.copy()).to_DCM()), [call(lambda i=i: Qn(Q[i].copy()).to_DCM()) for i in range(N)], TOL_CONV)
    cmp_rows(ctx, "to_DCM[S]", call(lambda: QA(QS.copy(), order="S").to_DCM()), [call(lambda i=i: Qn(QS[i].copy(), order="S").to_DCM()) for i in range(N)], TOL_CONV)
    cmp_rows(ctx, "conjugate", call(lambda: QA(Q.copy()).conjugate()), [call(lambda i=i: Qn(Q[i].copy()).conjugate) for i in range(N)], TOL_CONV)
    cmp_rows(ctx, "conjugate[S]", call(lambda: QA(QS.copy(), order="S").conjugate()), [call(lambda i=i: Qn(QS[i].copy(), order="S").conjugate) for i in range(N)], TOL_CONV)
    cmp_rows(ctx, "to_angles", call(lambda: QA(Q.copy()).to_angles()), [call(lambda i=i: Qn(Q[i].copy()).to_angles()) for i in range(N)], TOL_CONV)
    cmp_rows(ctx, "from_rpy", call(lambda: np.asarray(QA(rpy=ang.copy()))), [call(lambda i=i: np.asarray(Qn(rpy=ang[i].copy()))) for i in range(N)], TOL_CONV)
    cmp_rows(ctx, "q2R.v1", call(lambda: o.q2R(Q.copy())), [call(lambda i=i: o.q2R(Q[i].copy())) for i in range(N)], TOL_CONV)
    cmp_rows(ctx, "q2R.v2", call(lambda: o.q2R(Q.copy(), version=2)), [call(lambda i=i: o.q2R(Q[i].copy(), version=2)) for i in range(N)], TOL_CONV)
    cmp_rows(ctx, "DCM.from_quaternion", call(lambda: DCM().from_quaternion(Q.copy())), [call(lambda i=i: DCM().from_quaternion(Q[i].copy())) for i in range(N)], TOL_CONV)
    cmp_rows(ctx, "rpy2q", call(lambda: o.rpy2q(ang.copy()).T if N > 0 else None), [call(lambda i=i: o.rpy2q(ang[i].copy())) for i in range(N)], TOL_CONV)
    cmp_rows(ctx, "ned2enu", call(lambda: frames.ned2enu(V.copy())), [call(lambda i=i: frames.ned2enu(V[i].copy())) for i in range(N)], 0.0)
    cmp_rows(ctx, "am2angles", call(lambda: o.am2angles(a.copy(), m.copy())), [call(lambda i=i: o.am2angles(a[i].copy(), m[i].copy())[0]) for i in range(N)], TOL_EST)
    # ---- objects a caller derived from the constructed one (a copy, a view, a full slice): the same quaternions, so the same rows on both paths
    import copy as _copy
    kd = int(abs(float(Q[0, 0])) * 1e6) % len(DERIVED)
    dn, df = DERIVED[kd]
    for nm, meth in (("to_DCM", lambda X: X.to_DCM()), ("conjugate", lambda X: X.conjugate() if callable(X.conjugate) else X.conjugate), ("to_angles", lambda X: X.to_angles()),
                     ("w", lambda X: np.asarray(X.w, float)), ("v", lambda X: np.asarray(X.v, float))):
        for sfx, data, kw in (("", Q, {}), ("[S]", QS, {"order": "S"})):
            cmp_rows(ctx, "%s%s[derived object]" % (nm, sfx), call(lambda: meth(df(QA(data.copy(), **kw)))),
                     [call(lambda i=i: meth(df(Qn(data[i].copy(), **kw)))) for i in range(N)], TOL_CONV, what="batch row = single item on a %s of the object" % dn)
    # ---- several methods asked of ONE array object, in turn: every answer is still the row-by-row single-item answer (a method that reads must not
    # leave the object describing other quaternions)
    for sfx, data, kw in (("", Q, {}), ("[S]", QS, {"order": "S"})):
        def in_turn():
            X = QA(data.copy(), **kw)
            return [X.conjugate(), X.to_DCM(), X.to_angles(), X.conj(), np.asarray(X.w, float), X.to_DCM(), X.conjugate()]
        ot = call(in_turn)
        if ctx.returned(ot, clause="no-exception[methods in turn on one object]", route="to_DCM" + sfx):
            c1, d1, a1, c2, w1, d2, c3 = ot.value
            cmp_rows(ctx, "conjugate" + sfx, Outcome_ok(c1), [call(lambda i=i: Qn(data[i].copy(), **kw).conjugate) for i in range(N)], TOL_CONV, what="methods in turn on one object: conjugate() row = single item")
            cmp_rows(ctx, "conjugate" + sfx, Outcome_ok(c3), [call(lambda i=i: Qn(data[i].copy(), **kw).conjugate) for i in range(N)], TOL_CONV, what="methods in turn on one object: conjugate() asked again, row = single item")
            cmp_rows(ctx, "conjugate" + sfx, Outcome_ok(c2), [call(lambda i=i: Qn(data[i].copy(), **kw).conjugate) for i in range(N)], TOL_CONV, what="methods in turn on one object: conj() after conjugate(), row = single item")
            cmp_rows(ctx, "to_DCM" + sfx, Outcome_ok(d1), [call(lambda i=i: Qn(data[i].copy(), **kw).to_DCM()) for i in range(N)], TOL_CONV, what="methods in turn on one object: to_DCM() after conjugate(), row = single item")
            cmp_rows(ctx, "to_DCM" + sfx, Outcome_ok(d2), [call(lambda i=i: Qn(data[i].copy(), **kw).to_DCM()) for i in range(N)], TOL_CONV, what="methods in turn on one object: to_DCM() asked again, row = single item")
            cmp_rows(ctx, "to_angles", Outcome_ok(a1), [call(lambda i=i: Qn(data[i].copy(), **kw).to_angles()) for i in range(N)], TOL_CONV, what="methods in turn on one object: to_angles() row = single item")
    if case.region == "rows:integer":
        for route, fn, args in (("to_DCM", lambda x: QA(x).to_DCM(), [Q]), ("conjugate", lambda x: QA(x).conjugate(), [Q]), ("to_angles", lambda x: QA(x).to_angles(), [Q]),
                                ("from_rpy", lambda x: np.asarray(QA(rpy=x)), [ang]), ("q2R.v1", lambda x: o.q2R(x), [Q]), ("q2R.v2", lambda x: o.q2R(x, version=2), [Q]),
                                ("DCM.from_quaternion", lambda x: DCM().from_quaternion(x), [Q]), ("rpy2q", lambda x: o.rpy2q(x), [ang]),
                                ("ned2enu", lambda x: frames.ned2enu(x), [V]), ("am2angles", lambda x, y: o.am2angles(x, y), [a, m])):
            forms.invariant(ctx, route, fn, args)
    R3 = np.array([rq.refR(q / np.linalg.norm(q)) for q in Q])
    th = np.array([rq.rot_angle(R) for R in R3])
    dom = th <= np.pi - 1e-6
    for mth, kw in DCM_METHODS:
        r = "from_DCM/" + mth + ("%d" % kw["version"] if kw else "")
        sel = np.ones(N, bool) if mth in ("shepperd", "itzhack") else dom
        if not sel.any():
            continue
        Rs = R3[sel]
        cmp_rows(ctx, r, call(lambda: np.asarray(QA(DCM=Rs.copy(), method=mth, **kw))),
                 [call(lambda i=i: np.asarray(Qn(dcm=Rs[i].copy(), method=mth, **kw))) for i in range(len(Rs))], TOL_CONV if mth == "shepperd" else TOL_EST)
    if dom.any():
        Rs = R3[dom]

        def nrm(x):
            x = np.asarray(x, float)
            return x / np.linalg.norm(x, axis=-1, keepdims=True)
        cmp_rows(ctx, "hughes(N,3,3)", call(lambda: nrm(o.hughes(Rs.copy()))), [call(lambda i=i: nrm(o.hughes(Rs[i].copy()))) for i in range(len(Rs))], TOL_EST)
        cmp_rows(ctx, "chiaverini(N,3,3)", call(lambda: o.chiaverini(Rs.copy())), [call(lambda i=i: o.chiaverini(Rs[i].copy())) for i in range(len(Rs))], TOL_EST)


def check_metric(case, ctx):
    from ahrs.utils import metrics as M
    Q1, Q2 = case.p["Q1"], case.p["Q2"]
    N = len(Q1)
    for name in ("qdist", "qeip", "qcip", "qad"):
        fn = getattr(M, name)
        cmp_rows(ctx, name, call(lambda: fn(Q1.copy(), Q2.copy())), [call(lambda i=i: fn(Q1[i].copy(), Q2[i].copy())) for i in range(N)],
                 1e-7 if name in ("qcip", "qad") else 1e-13)
    R1 = np.array([rq.refR(q) for q in Q1])
    R2 = np.array([rq.refR(q) for q in Q2])
    cmp_rows(ctx, "chordal", call(lambda: M.chordal(R1.copy(), R2.copy())), [call(lambda i=i: M.chordal(R1[i].copy(), R2[i].copy())) for i in range(N)], 1e-13)


def check_est(case, ctx):
    import ahrs
    F = ahrs.filters
    a, m, dip, seed = case.p["a"], case.p["m"], case.p["dip"], int(case.p["seed"])
    N = len(a)
    mN = np.array([np.cos(np.radians(dip)), 0.0, np.sin(np.radians(dip))])
    mE = np.array([0.0, np.cos(np.radians(dip)), -np.sin(np.radians(dip))])
    # name -> (batch(a, m), one(a_i, m_i) via the one-sample constructor, single(a_i, m_i) via estimate())
    specs = {
        "Tilt/quaternion": (lambda a, m: F.Tilt(a, m).Q, lambda a, m: F.Tilt().estimate(a, m)),
        "Tilt/angles": (lambda a, m: F.Tilt(a, m, representation="angles").Q, lambda a, m: F.Tilt().estimate(a, m, "angles")),
        "Tilt/rotmat": (lambda a, m: F.Tilt(a, m, representation="rotmat").Q, lambda a, m: F.Tilt().estimate(a, m, "rotmat")),
        "Tilt/acc-only": (lambda a, m: F.Tilt(a).Q, lambda a, m: F.Tilt().estimate(a)),
        "SAAM/quaternion": (lambda a, m: F.SAAM(a, m).Q, lambda a, m: F.SAAM().estimate(a, m)),
        "SAAM/rotmat": (lambda a, m: F.SAAM(a, m, representation="rotmat").A, lambda a, m: ahrs.Quaternion(F.SAAM().estimate(a, m)).to_DCM()),
        "FAMC": (lambda a, m: F.FAMC(a, m).Q, lambda a, m: F.FAMC().estimate(a, m)),
        "FQA": (lambda a, m: F.FQA(a, m, mag_ref=mN.copy()).Q, lambda a, m: F.FQA(mag_ref=mN.copy()).estimate(a, m)),
        "QUEST": (lambda a, m: F.QUEST(a, m, magnetic_dip=dip).Q, lambda a, m: F.QUEST(magnetic_dip=dip).estimate(a, m)),
        "Davenport": (lambda a, m: F.Davenport(a, m, magnetic_dip=dip).Q, lambda a, m: F.Davenport(magnetic_dip=dip).estimate(a, m)),
        "TRIAD/rotmat/NED": (lambda a, m: F.TRIAD(a, m, v2=mN.copy()).A, lambda a, m: F.TRIAD(v2=mN.copy()).estimate(a, m)),
        "TRIAD/quaternion/NED": (lambda a, m: F.TRIAD(a, m, v2=mN.copy(), representation="quaternion").A, lambda a, m: F.TRIAD(v2=mN.copy()).estimate(a, m, "quaternion")),
        "TRIAD/rotmat/ENU": (lambda a, m: F.TRIAD(a, m, v2=mE.copy(), frame="ENU").A, lambda a, m: F.TRIAD(v2=mE.copy(), frame="ENU").estimate(a, m)),
        "TRIAD/quaternion/ENU": (lambda a, m: F.TRIAD(a, m, v2=mE.copy(), frame="ENU", representation="quaternion").A,
                                 lambda a, m: F.TRIAD(v2=mE.copy(), frame="ENU").estimate(a, m, "quaternion")),
        "AQUA/am/NED": (lambda a, m: F.AQUA(a, m).Q, lambda a, m: F.AQUA().estimate(a, m)),
        "AQUA/am/ENU": (lambda a, m: F.AQUA(a, m, frame="ENU").Q, lambda a, m: F.AQUA(frame="ENU").estimate(a, m)),
        "AQUA/acc/NED": (lambda a, m: F.AQUA(a).Q, lambda a, m: F.AQUA().estimate(a)),
    }
    # the route of TRIAD's docstring examples: references assigned to the object after construction
    def triad_assigned(v1, v2, rep=None):
        def one(a, m):
            t = F.TRIAD()
            t.v1 = v1.copy()
            t.v2 = v2.copy()
            return t.estimate(a, m) if rep is None else t.estimate(a, m, rep)
        return one
    gN = np.array([0.0, 0.0, 1.0])
    specs["TRIAD/rotmat/NED[references assigned]"] = (lambda a, m: F.TRIAD(a, m, v1=gN.copy(), v2=mN.copy()).A, triad_assigned(gN, mN))
    specs["TRIAD/quaternion/NED[references assigned]"] = (lambda a, m: F.TRIAD(a, m, v1=gN.copy(), v2=mN.copy(), representation="quaternion").A, triad_assigned(gN, mN, "quaternion"))
    for meth in ("symbolic", "eig", "newton"):
        specs["FLAE/" + meth] = (lambda a, m, meth=meth: F.FLAE(a, m, method=meth, magnetic_dip=dip).Q,
                                 lambda a, m, meth=meth: F.FLAE(magnetic_dip=dip).estimate(a, m, method=meth))
    for name, (batch, single) in specs.items():
        if case.region == "est:integer":
            att = name in BRANCH_CUT_ROUTES
            forms.invariant(ctx, name, lambda x, y: batch(x, y), [a, m], attitude=att)
            forms.invariant(ctx, name, lambda x, y: single(x, y), [a[0], m[0]], clause="single-item call: the same values in another argument form give the same result", attitude=att)
        if N > 1:
            cmp_rows(ctx, name, call(lambda: batch(a.copy(), m.copy())), [call(lambda i=i: single(a[i].copy(), m[i].copy())) for i in range(N)], TOL_EST,
                     sens=lambda i: sensitivity(single, a[i], m[i]))
        # a recording with one unusable sample (an all-zero accelerometer or magnetometer row: a dropout) among ordinary ones: whatever the estimator
        # does with that row, the other rows are the per-sample estimates - unless the single-item call refuses that sample in the same way
        if N >= 3:
            which = int(abs(float(a[0, 0])) * 1e6) % 2
            a2, m2 = a.copy(), m.copy()
            (a2 if which == 0 else m2)[1] = 0.0
            ob = call(lambda: batch(a2.copy(), m2.copy()))
            singles2 = [call(lambda i=i: single(a2[i].copy(), m2[i].copy())) for i in range(N)]
            if not ob.ok and any((not so.ok) and so.exc_name == ob.exc_name for so in singles2):
                # the single-item call fails in the same way on one of the rows (the dropped one, or a row at a singular pose - C03's business): equal behaviour
                ctx.note("batch and single-item call raise the same %s on a recording with a dropped-out sample: equal behaviour" % ob.exc_name)
            elif ctx.returned(ob, clause="no-exception[recording with one dropped-out sample]", route=name):
                Bv = ob.value
                okshape = Bv is not None and np.asarray(Bv).dtype != object and len(np.asarray(Bv)) == N
                if ctx.ok("a recording with one dropped-out sample still gives one row per sample", bool(okshape), {"got": "None" if Bv is None else list(np.shape(Bv))}, route=name):
                    Bv = np.asarray(Bv, float)
                    worst = 0.0
                    for i in range(N):
                        if i == 1:
                            continue
                        so = singles2[i]
                        if not so.ok or so.value is None:
                            continue
                        sv = np.asarray(so.value, float)
                        if sv.shape != Bv[i].shape or not (np.all(np.isfinite(sv)) and np.all(np.isfinite(Bv[i]))):
                            continue
                        d_ = float(np.abs(Bv[i] - sv).max())
                        if name in BRANCH_CUT_ROUTES and sv.shape == (4,):
                            d_ = min(d_, float(np.abs(Bv[i] + sv).max()))
                        elif name in BRANCH_CUT_ROUTES and sv.shape == (3,):      # a heading of exactly +-pi (whole-number samples): the same attitude on either side of the cut
                            d_ = float(np.abs((Bv[i] - sv + np.pi) % (2 * np.pi) - np.pi).max())
                        worst = max(worst, d_)
                    ctx.le("the usable rows of a recording with one dropped-out sample equal the per-sample estimates", worst, max(TOL_EST, 1e-9), {"dropped": "acc" if which == 0 else "mag"}, route=name)
        # one-row batch and one-sample constructor call must equal estimate() with the same options
        cmp_rows(ctx, name, call(lambda: np.asarray(batch(a[:1].copy(), m[:1].copy()))), [call(lambda: single(a[0].copy(), m[0].copy()))], TOL_EST,
                 what="one-row batch = single item", sens=lambda i: sensitivity(single, a[0], m[0]))
        o1 = call(lambda: batch(a[0].copy(), m[0].copy()))
        o2 = call(lambda: single(a[0].copy(), m[0].copy()))
        if not o1.ok and not o2.ok and o1.exc_name == o2.exc_name:
            ctx.note("one-sample constructor and estimate() raise the same %s: equal behaviour, not judged here" % o1.exc_name)
        elif ctx.returned(o1, clause="no-exception (one-sample constructor)", route=name) and ctx.returned(o2, route=name):
            x, y = np.asarray(o1.value), np.asarray(o2.value, dtype=float)
            if ctx.ok("one-sample constructor result has the single-item shape", x.shape == y.shape and x.dtype != object,
                      {"ctor": list(x.shape), "estimate": list(y.shape)}, route=name):
                xf = np.asarray(x, float)
                if np.isnan(xf).any() or np.isnan(y).any():      # NaN at a singular pose (C03's business): equal behaviour = NaN in the same places
                    dd = 0.0 if np.array_equal(np.isnan(xf), np.isnan(y)) and np.allclose(xf[~np.isnan(xf)], y[~np.isnan(y)], rtol=0, atol=TOL_EST) else float("inf")
                else:
                    dd = float(np.abs(xf - y).max())
                    if dd > TOL_EST:
                        allow = 200.0 * sensitivity(single, a[0], m[0])
                        if dd <= allow:
                            ctx.note("difference above the flat tolerance but within the measured rounding sensitivity at an ill-conditioned input")
                            dd = TOL_EST * dd / allow
                ctx.le("one-sample constructor honours its options (= estimate with the same options)", dd, TOL_EST, {"ctor": x, "estimate": y}, route=name)
    for fr in ("NED", "ENU"):
        name = "OLEQ/" + fr

        def batch():
            np.random.seed(seed)
            return F.OLEQ(a.copy(), m.copy(), magnetic_ref=dip, frame=fr).Q

        def singles():
            np.random.seed(seed)
            est = F.OLEQ(magnetic_ref=dip, frame=fr)
            return [est.estimate(a[i].copy(), m[i].copy()) for i in range(N)]
        ob, os_ = call(batch), call(singles)
        if ctx.returned(os_, clause="no-exception (single item)", route=name):
            B = ob.value if ob.ok else None
            if N == 1 and ob.ok and np.asarray(B).ndim == 1:
                B = np.asarray(B)[None]
            cmp_rows(ctx, name, type(ob)(ob.ok, B, ob.exc, ob.where), [call(lambda x=x: x) for x in os_.value], TOL_EST)


def check_long(case, ctx):
    """One long array through the vectorised entry points: sampled rows equal the single-item results, and the traced peak memory grows with N, not N^2
    (below 8 kB per row: an N x N intermediate would need gigabytes for a ten-minute recording and a MemoryError on an ordinary machine)."""
    import tracemalloc
    import ahrs
    from ahrs.common import orientation as o
    F = ahrs.filters
    N = int(case.p["N"])
    r_ = np.random.Generator(np.random.PCG64(int(case.p["seed"])))
    Q = r_.standard_normal((N, 4))
    Q /= np.linalg.norm(Q, axis=1)[:, None]
    ang = np.c_[r_.uniform(-np.pi, np.pi, N), r_.uniform(-1.5, 1.5, N), r_.uniform(-np.pi, np.pi, N)]
    a = r_.standard_normal((N, 3)) * 9.0
    m = r_.standard_normal((N, 3)) * 40.0
    pick = r_.integers(0, N, 12)
    Qn, QA = ahrs.Quaternion, ahrs.QuaternionArray
    R3 = None
    routes = [("to_DCM", lambda: QA(Q.copy()).to_DCM(), lambda i: Qn(Q[i].copy()).to_DCM()),
              ("conjugate", lambda: QA(Q.copy()).conjugate(), lambda i: Qn(Q[i].copy()).conjugate),
              ("to_angles", lambda: QA(Q.copy()).to_angles(), lambda i: Qn(Q[i].copy()).to_angles()),
              ("from_rpy", lambda: np.asarray(QA(rpy=ang.copy())), lambda i: np.asarray(Qn(rpy=ang[i].copy()))),
              ("q2R.v1", lambda: o.q2R(Q.copy()), lambda i: o.q2R(Q[i].copy())),
              ("Tilt/quaternion", lambda: F.Tilt(a.copy(), m.copy()).Q, lambda i: F.Tilt().estimate(a[i].copy(), m[i].copy())),
              ("SAAM/quaternion", lambda: F.SAAM(a.copy(), m.copy()).Q, lambda i: F.SAAM().estimate(a[i].copy(), m[i].copy()))]
    for name, batch, single in routes:
        tracemalloc.start()
        ob = call(batch)
        peak = tracemalloc.get_traced_memory()[1]
        tracemalloc.stop()
        if not ctx.returned(ob, clause="no-exception[%d rows]" % N, route=name):
            continue
        B = np.asarray(ob.value)
        if not ctx.ok("a long array gives one row per item", B.dtype != object and len(B) == N, {"shape": list(B.shape), "N": N}, route=name):
            continue
        worst = 0.0
        for i in pick:
            so = call(single, int(i))
            if not so.ok:
                continue
            s_, b_ = np.asarray(so.value, float), np.asarray(B[i], float)
            if s_.shape != b_.shape or not (np.all(np.isfinite(s_)) and np.all(np.isfinite(b_))):
                continue
            d_ = float(np.abs(s_ - b_).max())
            if name in BRANCH_CUT_ROUTES and s_.shape == (4,):
                d_ = min(d_, float(np.abs(s_ + b_).max()))
            worst = max(worst, d_)
        ctx.le("sampled rows of a long array equal the single-item results", worst, 1e-9, {"N": N}, route=name)
        ctx.le("traced peak memory of an N-row call stays below 8 kB per row (linear in N)", peak / float(N), 8192.0, {"N": N, "peak_bytes": int(peak)}, route=name)


def check(case, ctx):
    {"rows": check_rows, "metric": check_metric, "est": check_est, "long": check_long}[case.route](case, ctx)
