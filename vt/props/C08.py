"""C08 - gyro integration is exact for constant rates and of the stated order otherwise.

Reference model = the exponential map (vt.ref.quat); order-of-accuracy monitor
for the series method; cross-filter monitor for the dead-reckoning step."""
from math import factorial

import numpy as np

from .. import forms, gens
from ..core import Case, call
from ..oracles import as_real_array
from ..ref import quat as rq

PROP = "C08"
LEVEL = "exploration"
SHARDS = {"quick": 2, "thorough": 16}
THOROUGH_DEPTH = 20      # thorough tier = this many times the base thorough budget (VERIF_DEPTH overrides)
ROUTES = ["closed/update", "closed/batch", "series/order", "first-order/Madgwick.updateIMU", "first-order/Madgwick.updateMARG",
          "first-order/Mahony.updateIMU", "first-order/Mahony.updateMARG", "first-order/AQUA.updateIMU", "first-order/AQUA.updateMARG",
          "first-order/EKF.f", "first-order/ROLEQ.attitude_propagation", "first-order/AngularRate.series1", "angular_velocities"]
REGIONS = {"const:slow": 30, "const:fast": 30, "const:generic": 30, "series": 80, "step": 80, "sequence": 40}
PROBES = [("ahrs.filters.angular", "AngularRate.update"), ("ahrs.filters.madgwick", "Madgwick.updateIMU"), ("ahrs.filters.madgwick", "Madgwick.updateMARG"),
          ("ahrs.filters.mahony", "Mahony.updateIMU"), ("ahrs.filters.mahony", "Mahony.updateMARG"), ("ahrs.filters.aqua", "AQUA.updateIMU"),
          ("ahrs.filters.aqua", "AQUA.updateMARG"), ("ahrs.filters.ekf", "EKF.f"), ("ahrs.filters.roleq", "ROLEQ.attitude_propagation"),
          ("ahrs.common.quaternion", "QuaternionArray.angular_velocities")]
REQUIRED_PROBES = ["angular.AngularRate.update", "madgwick.Madgwick.updateIMU", "madgwick.Madgwick.updateMARG", "mahony.Mahony.updateIMU",
                   "mahony.Mahony.updateMARG", "aqua.AQUA.updateIMU", "aqua.AQUA.updateMARG", "ekf.EKF.f", "roleq.ROLEQ.attitude_propagation",
                   "quaternion.QuaternionArray.angular_velocities"]
RULE = ("const cases: initial attitude Haar-random, constant rate 1e-2..10 rad/s (slow/fast/generic), dt 1e-3..5e-2 s, 1..300 steps, through update() "
        "and the batch constructor; series cases: x = |rate| dt log-uniform in 1e-5..0.5, orders 0..6; step cases: one dead-reckoning step with a "
        "null accelerometer sample through nine routes; sequence cases: smooth random-walk rate histories (20..200 samples, |rate| dt up to 0.3) "
        "integrated by the harness, rates recovered by angular_velocities() and re-integrated; non-trivial = rate is non-zero")
ASSUMPTIONS = ["exponential map / Hamilton product of vt/ref/quat.py", "series bound: error of the order-k truncation <= 4 (x/2)^(k+1)/(k+1)! with x = |rate| dt "
               "(Taylor remainder, factor 4 margin)", "AQUA integrates q' = -1/2 (0,w) q (its own attitude convention); the other filters q' = 1/2 q (0,w)",
               "recovered rates are first-order: re-integration error <= sum (|w| dt)^3 / 12 + 1e-9"]


def generate(rng, tier, shard, nshards):
    n = gens.budget(150, tier, nshards)
    for i in range(n):
        reg = ["const:slow", "const:fast", "const:generic"][i % 3]
        rate = {"const:slow": lambda: gens.logu(rng, 1e-2, 1e-1), "const:fast": lambda: gens.logu(rng, 3.0, 10.0), "const:generic": lambda: gens.logu(rng, 1e-2, 10.0)}[reg]()
        yield Case("const", reg, q0=gens.unit(rng), w=gens.axis(rng) * rate, dt=gens.logu(rng, 1e-3, 5e-2), n=int(rng.integers(1, 301)))
    for i in range(gens.budget(160, tier, nshards)):
        x = gens.logu(rng, 1e-5, 0.5)
        dt = gens.logu(rng, 1e-3, 5e-2)
        yield Case("series", "series", q0=gens.unit(rng), w=gens.axis(rng) * x / dt, dt=dt)
    for i in range(gens.budget(160, tier, nshards)):
        # every 4th case starts from a whole-number quaternion (identity, +-i, +-j, +-k: what a caller types as [1, 0, 0, 0]) with whole-number rates
        whole = i % 4 == 3
        w_ = rng.integers(-9, 10, 3).astype(float) + (0 if i % 8 == 3 else 0.25) if whole else gens.axis(rng) * gens.logu(rng, 1e-2, 10.0)
        if i % 4 == 1:              # rate vectors with an exact relation between their components (sum exactly 0, equal, opposite, single axis)
            a_ = float(rng.choice([0.3, 0.5, 1.0, 2.0, 0.125])) * float(rng.choice([-1, 1]))
            w_ = np.array([[a_, -a_, 0.0], [a_, -a_ / 2, -a_ / 2], [a_, a_, -2 * a_], [0.0, a_, -a_], [a_, a_, a_], [a_, 0.0, 0.0], [0.0, 0.0, a_], [a_, a_, 0.0]][int(rng.integers(8))])
        yield Case("step", "step", q0=gens.unit_quat(rng, "axis_aligned") if whole else gens.unit(rng),
                   w=w_,
                   dt=gens.logu(rng, 1e-3, 5e-2), m=gens.vec3(rng, 1.0, 100.0))
    for i in range(gens.budget(80, tier, nshards)):
        N = int(rng.integers(20, 201))
        dt = gens.logu(rng, 1e-3, 5e-2)
        W = np.cumsum(rng.standard_normal((N, 3)), axis=0) * gens.logu(rng, 1e-3, 0.02) / dt + gens.axis(rng) * gens.logu(rng, 1e-2, 0.1) / dt
        W *= min(1.0, 0.3 / (np.linalg.norm(W, axis=1).max() * dt))
        if i % 8 == 5:      # a platform drifting by micro-radians per second: the whole sequence turns by less than 1e-8 rad per sample
            W *= gens.logu(rng, 1e-7, 1e-5) / np.linalg.norm(W, axis=1).max()
        yield Case("sequence", "sequence", q0=gens.unit(rng), W=W, dt=dt)


def nontrivial(case):
    return bool(np.any(case.p.get("w", case.p.get("W", 1)) != 0))


def qd(a, b):
    return rq.qdist_sign(np.asarray(a, float), np.asarray(b, float))


def check_const(case, ctx):
    import ahrs
    q0, w, dt, n = case.p["q0"], case.p["w"], float(case.p["dt"]), int(case.p["n"])
    exp_n = rq.qmul(q0, rq.qexp_pure(w * n * dt / 2))
    ar = ahrs.filters.AngularRate()

    def loop():
        q = q0.copy()
        for _ in range(n):
            q = np.asarray(ar.update(q, w.copy(), method=gens.spell("closed", n), dt=dt), float)     # method names are compared case-insensitively
        return q
    out = call(loop)
    if ctx.returned(out, route="closed/update"):
        q = as_real_array(ctx, out.value, (4,), route="closed/update", what="quaternion")
        if q is not None:
            ctx.le("n closed-form steps of a constant rate = q0 * exp(rate n dt / 2)", qd(q, exp_n), 1e-13 * max(n, 10), {"n": n, "x": float(np.linalg.norm(w) * dt)}, route="closed/update")
            ctx.le("result is a unit quaternion", abs(np.linalg.norm(q) - 1), 1e-13, route="closed/update")
    out = call(lambda: np.asarray(ahrs.filters.AngularRate(np.tile(w, (n + 1, 1)), q0=q0.copy(), Dt=dt, method=gens.spell("closed", n + 1)).Q, float))
    if ctx.returned(out, route="closed/batch"):
        Q = as_real_array(ctx, out.value, (n + 1, 4), route="closed/batch", what="quaternion array")
        if Q is not None:
            ref = np.array([rq.qmul(q0, rq.qexp_pure(w * t * dt / 2)) for t in range(n + 1)])
            d = np.minimum(np.abs(Q - ref).max(axis=1), np.abs(Q + ref).max(axis=1))
            ctx.le("batch AngularRate(gyr) row t = q0 * exp(rate t dt / 2)", float(d.max()), 1e-13 * max(n, 10), {"n": n}, route="closed/batch")
    out = call(lambda: np.asarray(ahrs.filters.AngularRate(np.tile(w, (n + 1, 1)), q0=q0.copy(), frequency=1.0 / dt).Q[-1], float))
    if ctx.returned(out, route="closed/batch"):
        ctx.le("batch AngularRate(frequency=1/dt) last row", qd(out.value, exp_n), 1e-12 * max(n, 10), route="closed/batch")


def check_series(case, ctx):
    import ahrs
    q0, w, dt = case.p["q0"], case.p["w"], float(case.p["dt"])
    x = float(np.linalg.norm(w) * dt)
    ar = ahrs.filters.AngularRate()
    ref = rq.qmul(q0, rq.qexp_pure(w * dt / 2))
    out = call(lambda: [np.asarray(ar.update(q0.copy(), w.copy(), method=gens.spell("series", k), order=k, dt=dt), float) for k in range(0, 7)])
    r = "series/order"
    if not ctx.returned(out, route=r):
        return
    errs = []
    for k, q in enumerate(out.value):
        if as_real_array(ctx, q, (4,), route=r, what="quaternion") is None:
            return
        errs.append(qd(q, ref))
    ctx.ok("order 0 returns the quaternion unchanged", qd(out.value[0], q0) <= 1e-15, route=r)
    for k, e in enumerate(errs):
        bound = 4.0 * (x / 2) ** (k + 1) / factorial(k + 1) + 1e-14
        ctx.le("order-k series agrees with the closed form to O(x^(k+1))", e, bound, {"order": k, "x": x, "errors_by_order": errs}, route=r, region="series:order%d" % k)
    for k in range(6):
        ctx.le("every extra order improves the result", errs[k + 1] - errs[k], 1e-14, {"order": k + 1, "x": x, "errors_by_order": errs}, route=r, region="series:order%d" % (k + 1))
    out = call(lambda: np.asarray(ar.update(q0.copy(), w.copy(), method="closed", dt=dt), float))
    if ctx.returned(out, route=r):
        ctx.le("closed form = exponential map (one step)", qd(out.value, ref), 1e-14, route=r)
    # the batch constructor with the same options: row 1 of AngularRate(gyr, method='series', order=k) is the one-step update of that order
    for k in (0, 2, 3, 5, 6):
        nb = 4
        outb = call(lambda: np.asarray(ahrs.filters.AngularRate(np.tile(w, (nb, 1)), q0=q0.copy(), Dt=dt, method="series", order=k).Q, float))
        if not ctx.returned(outb, clause="no-exception[batch, series]", route=r):
            continue
        Qb = outb.value
        q_ = q0.copy()
        worst = 0.0
        for t in range(1, nb):
            q_ = np.asarray(ar.update(q_, w.copy(), method="series", order=k, dt=dt), float)
            worst = max(worst, qd(Qb[t], q_))
        ctx.le("batch AngularRate(method='series', order=k) rows = repeated update(order=k)", worst, 1e-14, {"order": k, "x": x}, route=r, region="series:order%d" % k)


def check_step(case, ctx):
    import ahrs
    F = ahrs.filters
    q0, w, dt, m = case.p["q0"], case.p["w"], float(case.p["dt"]), case.p["m"]
    z = np.zeros(3)
    first = rq.qnormalize(q0 + 0.5 * dt * rq.qmul(q0, np.r_[0.0, w]))
    first_aqua = rq.qnormalize(q0 + 0.5 * dt * rq.qmul(np.r_[0.0, -w], q0))
    routes = {
        "first-order/Madgwick.updateIMU": (lambda: F.Madgwick().updateIMU(q0.copy(), w.copy(), z.copy(), dt=dt), first),
        "first-order/Madgwick.updateMARG": (lambda: F.Madgwick().updateMARG(q0.copy(), w.copy(), z.copy(), m.copy(), dt=dt), first),
        "first-order/Mahony.updateIMU": (lambda: F.Mahony().updateIMU(q0.copy(), w.copy(), z.copy(), dt=dt), first),
        "first-order/Mahony.updateMARG": (lambda: F.Mahony().updateMARG(q0.copy(), w.copy(), z.copy(), m.copy(), dt=dt), first),
        "first-order/AQUA.updateIMU": (lambda: F.AQUA().updateIMU(q0.copy(), w.copy(), z.copy(), dt=dt), first_aqua),
        "first-order/AQUA.updateMARG": (lambda: F.AQUA().updateMARG(q0.copy(), w.copy(), z.copy(), m.copy(), dt=dt), first_aqua),
        "first-order/EKF.f": (lambda: F.EKF().f(q0.copy(), w.copy(), dt), first),
        "first-order/ROLEQ.attitude_propagation": (lambda: F.ROLEQ().attitude_propagation(q0.copy(), w.copy(), dt), first),
        "first-order/AngularRate.series1": (lambda: F.AngularRate().update(q0.copy(), w.copy(), method="series", order=1, dt=dt), first),
        # both field sensors dropped out in the same sample: still nothing but the gyroscope to go by
        "first-order/Madgwick.updateMARG[mag null too]": (lambda: F.Madgwick().updateMARG(q0.copy(), w.copy(), z.copy(), z.copy(), dt=dt), first),
        "first-order/Mahony.updateMARG[mag null too]": (lambda: F.Mahony().updateMARG(q0.copy(), w.copy(), z.copy(), z.copy(), dt=dt), first),
        "first-order/AQUA.updateMARG[mag null too]": (lambda: F.AQUA().updateMARG(q0.copy(), w.copy(), z.copy(), z.copy(), dt=dt), first_aqua),
    }
    for r, (fn, ref) in routes.items():
        out = call(fn)
        if ctx.returned(out, route=r):
            q = as_real_array(ctx, np.asarray(out.value), (4,), route=r, what="quaternion")
            if q is not None:
                ctx.le("dead-reckoning step = normalised first-order step q + dt/2 q (0,w) (each in its own convention)",
                       np.abs(q / np.linalg.norm(q) - ref).max(), 1e-14, {"got": q, "expected": ref, "x": float(np.linalg.norm(w) * dt)}, route=r)
    # the step fed its own raw output, several times over (q = f(q, w, dt) in a loop, nothing re-normalised by the caller - EKF.f returns a vector
    # off the unit sphere, and is linear): the direction after n steps is that of n first-order steps
    nst = 3 + int(abs(float(w[1])) * 1e3) % 30
    chain = {False: q0.copy(), True: q0.copy()}
    for _ in range(nst):
        chain[False] = rq.qnormalize(chain[False] + 0.5 * dt * rq.qmul(chain[False], np.r_[0.0, w]))
        chain[True] = rq.qnormalize(chain[True] + 0.5 * dt * rq.qmul(np.r_[0.0, -w], chain[True]))
    loops = {
        "first-order/Madgwick.updateIMU": lambda q: F.Madgwick().updateIMU(q, w.copy(), z.copy(), dt=dt),
        "first-order/Mahony.updateIMU": lambda q: F.Mahony().updateIMU(q, w.copy(), z.copy(), dt=dt),
        "first-order/AQUA.updateIMU": lambda q: F.AQUA().updateIMU(q, w.copy(), z.copy(), dt=dt),
        "first-order/EKF.f": lambda q: F.EKF().f(q, w.copy(), dt),
        "first-order/ROLEQ.attitude_propagation": lambda q: F.ROLEQ().attitude_propagation(q, w.copy(), dt),
        "first-order/AngularRate.series1": lambda q: F.AngularRate().update(q, w.copy(), method="series", order=1, dt=dt),
    }
    for r, step in loops.items():
        def run_loop(step=step):
            q = q0.copy()
            for _ in range(nst):
                q = step(q)
            return np.asarray(q, float)
        out = call(run_loop)
        if ctx.returned(out, clause="no-exception[step fed its own raw output]", route=r):
            q = as_real_array(ctx, out.value, (4,), route=r, what="quaternion")
            if q is not None and np.linalg.norm(q) > 0:
                ref_n = chain["AQUA" in r]
                ctx.le("n steps fed their own raw output = n first-order steps (direction)", float(np.abs(q / np.linalg.norm(q) - ref_n).max()), 1e-14 * (nst + 5),
                       {"n": nst, "got": q, "expected_direction": ref_n, "x": float(np.linalg.norm(w) * dt)}, route=r)
    if forms.integral(q0) and np.any(w):
        zi = np.zeros(3)
        for r, fn in (("first-order/Madgwick.updateIMU", lambda q, g: F.Madgwick().updateIMU(q, g, zi.copy(), dt=dt)),
                      ("first-order/Madgwick.updateMARG", lambda q, g: F.Madgwick().updateMARG(q, g, zi.copy(), m.copy(), dt=dt)),
                      ("first-order/Mahony.updateIMU", lambda q, g: F.Mahony().updateIMU(q, g, zi.copy(), dt=dt)),
                      ("first-order/Mahony.updateMARG", lambda q, g: F.Mahony().updateMARG(q, g, zi.copy(), m.copy(), dt=dt)),
                      ("first-order/AQUA.updateIMU", lambda q, g: F.AQUA().updateIMU(q, g, zi.copy(), dt=dt)),
                      ("first-order/AQUA.updateMARG", lambda q, g: F.AQUA().updateMARG(q, g, zi.copy(), m.copy(), dt=dt)),
                      ("first-order/EKF.f", lambda q, g: F.EKF().f(q, g, dt)),
                      ("first-order/ROLEQ.attitude_propagation", lambda q, g: F.ROLEQ().attitude_propagation(q, g, dt)),
                      ("first-order/AngularRate.series1", lambda q, g: F.AngularRate().update(q, g, method="series", order=1, dt=dt)),
                      ("closed/update", lambda q, g: F.AngularRate().update(q, g, method="closed", dt=dt))):
            forms.invariant(ctx, r, fn, [q0, w])
    # the same step from an instance that has already processed ordinary samples (carrying whatever internal state the
    # filter keeps: integral bias, adaptive gain, previous sample), and from one built with a non-zero initial bias
    wr = np.random.default_rng(int(abs(w[0]) * 1e9) % (2 ** 31))
    warm = [(wr.standard_normal(3) * 0.5, gens.axis(wr) * 9.81, gens.axis(wr) * 50.0) for _ in range(int(wr.integers(2, 9)))]

    def warmed(f, imu):
        q = np.array([1.0, 0.0, 0.0, 0.0])
        for g_, a_, m_ in warm:
            q = f.updateIMU(q, g_.copy(), a_.copy()) if imu else f.updateMARG(q, g_.copy(), a_.copy(), m_.copy())
        return f
    b0 = wr.standard_normal(3) * 0.05
    hist = {
        "first-order/Madgwick.updateIMU": (lambda: warmed(F.Madgwick(), True).updateIMU(q0.copy(), w.copy(), z.copy(), dt=dt), first),
        "first-order/Madgwick.updateMARG": (lambda: warmed(F.Madgwick(), False).updateMARG(q0.copy(), w.copy(), z.copy(), m.copy(), dt=dt), first),
        "first-order/Mahony.updateIMU": (lambda: warmed(F.Mahony(), True).updateIMU(q0.copy(), w.copy(), z.copy(), dt=dt), first),
        "first-order/Mahony.updateMARG": (lambda: warmed(F.Mahony(), False).updateMARG(q0.copy(), w.copy(), z.copy(), m.copy(), dt=dt), first),
        "first-order/AQUA.updateIMU": (lambda: warmed(F.AQUA(adaptive=True), True).updateIMU(q0.copy(), w.copy(), z.copy(), dt=dt), first_aqua),
        "first-order/AQUA.updateMARG": (lambda: warmed(F.AQUA(adaptive=True), False).updateMARG(q0.copy(), w.copy(), z.copy(), m.copy(), dt=dt), first_aqua),
    }
    for r, (fn, ref) in hist.items():
        out = call(fn)
        if ctx.returned(out, route=r):
            q = np.asarray(out.value, float)
            ctx.le("an instance that has already processed samples dead-reckons by the same first-order step",
                   np.abs(q / np.linalg.norm(q) - ref).max(), 1e-14, {"got": q, "expected": ref, "warm_up_samples": len(warm)}, route=r)
    for r, fn in (("first-order/Mahony.updateIMU", lambda: F.Mahony(b0=b0.copy()).updateIMU(q0.copy(), w.copy(), z.copy(), dt=dt)),
                  ("first-order/Mahony.updateMARG", lambda: F.Mahony(b0=b0.copy()).updateMARG(q0.copy(), w.copy(), z.copy(), m.copy(), dt=dt))):
        out = call(fn)
        if ctx.returned(out, route=r):
            q = np.asarray(out.value, float)
            ctx.le("an instance built with an initial bias estimate dead-reckons by the same first-order step",
                   np.abs(q / np.linalg.norm(q) - first).max(), 1e-14, {"got": q, "expected": first, "b0": b0}, route=r)
    # the dead-reckoned step must also use the instance's own sampling step when dt is not passed
    fr = 1.0 / dt
    for r, fn, ref in (("first-order/Madgwick.updateIMU", lambda: F.Madgwick(frequency=fr).updateIMU(q0.copy(), w.copy(), z.copy()), first),
                       ("first-order/Mahony.updateIMU", lambda: F.Mahony(frequency=fr).updateIMU(q0.copy(), w.copy(), z.copy()), first),
                       ("first-order/AQUA.updateIMU", lambda: F.AQUA(frequency=fr).updateIMU(q0.copy(), w.copy(), z.copy()), first_aqua)):
        out = call(fn)
        if ctx.returned(out, route=r):
            ctx.le("step uses the filter's own sampling period when dt is omitted", np.abs(np.asarray(out.value, float) - ref).max(), 1e-12, route=r)


def check_step_dt_history(case, ctx):
    """a step size passed to one call is for that call: a later call on the same instance that leaves dt out steps by the instance's own sampling period"""
    import ahrs
    F = ahrs.filters
    q0, w, dt, m = case.p["q0"], case.p["w"], float(case.p["dt"]), case.p["m"]
    z = np.zeros(3)
    first = rq.qnormalize(q0 + 0.5 * dt * rq.qmul(q0, np.r_[0.0, w]))
    first_aqua = rq.qnormalize(q0 + 0.5 * dt * rq.qmul(np.r_[0.0, -w], q0))
    other = dt * (3.0 if int(abs(w[0]) * 1e6) % 2 else 0.25)

    def seq(make, step, marg):
        def run():
            f = make()
            if marg:
                step(f)(q0.copy(), w.copy(), z.copy(), m.copy(), dt=other)
                return step(f)(q0.copy(), w.copy(), z.copy(), m.copy())
            step(f)(q0.copy(), w.copy(), z.copy(), dt=other)
            return step(f)(q0.copy(), w.copy(), z.copy())
        return run
    for r, run, ref in (("first-order/Madgwick.updateIMU", seq(lambda: F.Madgwick(Dt=dt), lambda f: f.updateIMU, False), first),
                        ("first-order/Madgwick.updateMARG", seq(lambda: F.Madgwick(Dt=dt), lambda f: f.updateMARG, True), first),
                        ("first-order/Mahony.updateIMU", seq(lambda: F.Mahony(Dt=dt), lambda f: f.updateIMU, False), first),
                        ("first-order/Mahony.updateMARG", seq(lambda: F.Mahony(Dt=dt), lambda f: f.updateMARG, True), first),
                        ("first-order/AQUA.updateIMU", seq(lambda: F.AQUA(Dt=dt), lambda f: f.updateIMU, False), first_aqua),
                        ("first-order/AQUA.updateMARG", seq(lambda: F.AQUA(Dt=dt), lambda f: f.updateMARG, True), first_aqua)):
        out = call(run)
        if ctx.returned(out, clause="no-exception[dt given on an earlier call only]", route=r):
            q = np.asarray(out.value, float)
            ctx.le("a call without dt steps by the instance's sampling period, whatever dt an earlier call on the instance was given",
                   np.abs(q / np.linalg.norm(q) - ref).max(), 1e-12, {"got": q, "expected": ref, "Dt": dt, "dt_of_earlier_call": other}, route=r)
    # the step size handed to one full update (valid field samples, correction included) = the same update on an instance built with that step:
    # whichever way the filter is told its sampling period, the prediction integrates over it
    a_ok, m_ok = np.array([0.3, -0.2, 9.7]), np.asarray(m, float)
    for r, mk, step in (("first-order/Madgwick.updateIMU", lambda **k: F.Madgwick(**k), lambda f, **k: f.updateIMU(q0.copy(), w.copy(), a_ok.copy(), **k)),
                        ("first-order/Madgwick.updateMARG", lambda **k: F.Madgwick(**k), lambda f, **k: f.updateMARG(q0.copy(), w.copy(), a_ok.copy(), m_ok.copy(), **k)),
                        ("first-order/Mahony.updateIMU", lambda **k: F.Mahony(**k), lambda f, **k: f.updateIMU(q0.copy(), w.copy(), a_ok.copy(), **k)),
                        ("first-order/Mahony.updateMARG", lambda **k: F.Mahony(**k), lambda f, **k: f.updateMARG(q0.copy(), w.copy(), a_ok.copy(), m_ok.copy(), **k)),
                        ("first-order/AQUA.updateIMU", lambda **k: F.AQUA(**k), lambda f, **k: f.updateIMU(q0.copy(), w.copy(), a_ok.copy(), **k)),
                        ("first-order/AQUA.updateMARG", lambda **k: F.AQUA(**k), lambda f, **k: f.updateMARG(q0.copy(), w.copy(), a_ok.copy(), m_ok.copy(), **k)),
                        ("first-order/EKF.f", lambda **k: F.EKF(**k), lambda f, **k: f.update(q0.copy(), w.copy(), a_ok.copy(), m_ok.copy(), **k)),
                        ("first-order/EKF.f", lambda **k: F.EKF(**k), lambda f, **k: f.update(q0.copy(), w.copy(), a_ok.copy(), **k)),
                        ("first-order/ROLEQ.attitude_propagation", lambda **k: F.ROLEQ(**k), lambda f, **k: f.update(q0.copy(), w.copy(), a_ok.copy(), m_ok.copy(), **k))):
        out = call(lambda: (np.asarray(step(mk(Dt=other), dt=dt), float), np.asarray(step(mk(Dt=dt)), float), np.asarray(step(mk(frequency=1.0 / dt)), float)))
        if ctx.returned(out, clause="no-exception[full update, dt per call / per instance]", route=r):
            per_call, per_inst, per_freq = out.value
            # (Dt= hands over the very same float; frequency= 1/dt makes the filter step by 1/(1/dt), an ulp from dt, which a correction computed at an
            # ill-conditioned pose - next to a half turn - amplifies: 1e-10 there)
            ctx.le("a full update told its step per call equals the update of an instance built with that step (Dt= or frequency=)",
                   float(max(np.abs(per_call - per_inst).max(), 1e-3 * np.abs(per_freq - per_inst).max())), 1e-13,
                   {"dt": dt, "Dt_of_the_instance": other, "per_call": per_call, "per_instance": per_inst, "per_frequency": per_freq}, route=r)
    # mixed entry points: updateIMU with dt, then updateMARG without
    out = call(lambda: (lambda f: (f.updateIMU(q0.copy(), w.copy(), z.copy(), dt=other), f.updateMARG(q0.copy(), w.copy(), z.copy(), m.copy()))[1])(F.Madgwick(Dt=dt)))
    if ctx.returned(out, clause="no-exception[dt given on an earlier call only]", route="first-order/Madgwick.updateMARG"):
        q = np.asarray(out.value, float)
        ctx.le("a call without dt steps by the instance's sampling period, whatever dt an earlier call on the instance was given",
               np.abs(q / np.linalg.norm(q) - first).max(), 1e-12, {"got": q, "expected": first, "earlier_call": "updateIMU(dt=)"}, route="first-order/Madgwick.updateMARG")


def check_sequence(case, ctx):
    import ahrs
    q0, W, dt = case.p["q0"], case.p["W"], float(case.p["dt"])
    Q = [q0]
    for t in range(1, len(W)):
        Q.append(rq.qnormalize(rq.qmul(Q[-1], rq.qexp_pure(W[t] * dt / 2))))
    Q = np.array(Q)
    r = "angular_velocities"
    out = call(lambda: np.asarray(ahrs.QuaternionArray(Q.copy()).angular_velocities(dt), float))
    if not ctx.returned(out, route=r):
        return
    Wr = as_real_array(ctx, out.value, (len(W) - 1, 3), route=r, what="angular velocities")
    if Wr is None:
        return
    # the same sequence stored scalar-last, non-normalised (versors=False) and as a one-step sequence: the recovered rates must be the same
    QS = np.c_[Q[:, 1:], Q[:, 0]]
    alt = call(lambda: (np.asarray(ahrs.QuaternionArray(QS.copy(), order="S").angular_velocities(dt), float),
                        np.asarray(ahrs.QuaternionArray(Q[:2].copy()).angular_velocities(dt), float)))
    if ctx.returned(alt, clause="no-exception[order=S / two rows]", route=r):
        # (re-normalising a copy moves a component by an ulp, which is a rate of 2 ulp / dt whatever the rate itself: absolute floor 1e-15 / dt)
        sc_ = max(np.abs(Wr).max(), 1e-300)
        ctx.le("angular_velocities of the scalar-last copy of the sequence = those of the sequence", float(np.abs(alt.value[0] - Wr).max() / (sc_ + 1e-3 / dt)), 1e-12, route=r)
        ctx.le("angular_velocities of the first two rows = first row of the full result", float(np.abs(alt.value[1].reshape(-1) - Wr[0]).max() / (sc_ + 1e-3 / dt)), 1e-12, route=r)
    # the sensor-simulation class recovers the rates of a quaternion sequence it is given, too (rows 1.. of ang_vel): the same rates, through however
    # many turns the sequence goes (roll or yaw passing +-180 deg, pitch passing +-90 deg on the way)
    sv = call(lambda: np.asarray(ahrs.Sensors(quaternions=ahrs.QuaternionArray(Q.copy()), freq=1.0 / dt).ang_vel, float))
    if ctx.returned(sv, clause="no-exception[Sensors(quaternions=).ang_vel]", route=r):
        if ctx.ok("Sensors(quaternions=).ang_vel has one row per sample", sv.value.shape == (len(W), 3), {"shape": list(sv.value.shape)}, route=r):
            ctx.le("Sensors(quaternions=Q, freq=1/dt).ang_vel[1:] = the rates recovered from Q", float(np.abs(sv.value[1:] - Wr).max() / (max(np.abs(Wr).max(), 1e-300) + 1e-6 / dt)), 1e-9,
                   {"first_bad_row": int(np.argmax(np.abs(sv.value[1:] - Wr).max(axis=1) > 1e-9 * np.abs(Wr).max())), "N": len(W)}, route=r)
    x = np.linalg.norm(W[1:], axis=1) * dt
    ctx.le("recovered rates equal the true rates to first order (error / (x^3/12 + 1e-12))",
           float((np.linalg.norm(Wr - W[1:], axis=1) * dt / (x ** 3 / 12 + 1e-12)).max()), 1.0, {"max_x": float(x.max())}, route=r)
    ar = ahrs.filters.AngularRate()

    def reint():
        q = [Q[0]]
        for t in range(1, len(W)):
            q.append(np.asarray(ar.update(q[-1], Wr[t - 1].copy(), method="closed", dt=dt), float))
        return np.array(q)
    o2 = call(reint)
    if ctx.returned(o2, route=r):
        Q2 = o2.value
        budget = np.r_[0.0, np.cumsum(x ** 3 / 12.0)] + 1e-9
        err = np.array([rq.qang(Q2[t], Q[t]) for t in range(len(Q))])
        ctx.le("re-integrating the recovered rates reproduces the sequence (error / (sum x^3/12 + 1e-9))", float((err / budget).max()), 1.0,
               {"worst_err": float(err.max()), "budget_end": float(budget[-1]), "N": len(Q)}, route=r)


def check_sequence_batch(case, ctx):
    """A time-varying rate history through the batch constructors with every accelerometer sample null (pure dead reckoning): row t is the chain of
    first-order steps driven by gyr[t] (the documented Q[t] = update(Q[t-1], gyr[t], acc[t])), each filter in its own attitude convention;
    AngularRate's batch run is the chain of its own steps."""
    import ahrs
    F = ahrs.filters
    q0, W, dt = case.p["q0"], case.p["W"], float(case.p["dt"])
    n = len(W)
    Z = np.zeros((n, 3))
    Mg = np.tile(np.array([20.0, 3.0, -40.0]), (n, 1))
    chain, chain_aqua = [q0], [q0]
    for t in range(1, n):
        chain.append(rq.qnormalize(chain[-1] + 0.5 * dt * rq.qmul(chain[-1], np.r_[0.0, W[t]])))
        chain_aqua.append(rq.qnormalize(chain_aqua[-1] + 0.5 * dt * rq.qmul(np.r_[0.0, -W[t]], chain_aqua[-1])))
    chain, chain_aqua = np.array(chain), np.array(chain_aqua)
    for r, fn, ref in (("first-order/Madgwick.updateIMU", lambda: F.Madgwick(W.copy(), Z.copy(), q0=q0.copy(), Dt=dt).Q, chain),
                       ("first-order/Mahony.updateIMU", lambda: F.Mahony(W.copy(), Z.copy(), q0=q0.copy(), Dt=dt).Q, chain),
                       ("first-order/Mahony.updateMARG", lambda: F.Mahony(W.copy(), Z.copy(), Mg.copy(), q0=q0.copy(), Dt=dt).Q, chain),
                       ("first-order/AQUA.updateIMU", lambda: F.AQUA(gyr=W.copy(), acc=Z.copy(), q0=q0.copy(), Dt=dt).Q, chain_aqua),
                       ("first-order/AQUA.updateMARG", lambda: F.AQUA(gyr=W.copy(), acc=Z.copy(), mag=Mg.copy(), q0=q0.copy(), Dt=dt).Q, chain_aqua)):
        out = call(fn)
        if not ctx.returned(out, clause="no-exception[batch run, accelerometer null throughout]", route=r):
            continue
        Qb = np.asarray(out.value, float)
        if ctx.ok("batch run gives one attitude per sample", Qb.shape == ref.shape, {"shape": list(Qb.shape)}, route=r):
            d = np.minimum(np.abs(Qb - ref).max(axis=1), np.abs(Qb + ref).max(axis=1))
            ctx.le("a batch run that dead-reckons throughout is the chain of first-order steps driven by gyr[t]", float(d.max()), 1e-13 * n, {"first_bad_row": int(np.argmax(d > 1e-13 * n)), "N": n},
                   route=r)


def check(case, ctx):
    {"const": check_const, "series": check_series, "step": check_step, "sequence": check_sequence}[case.route](case, ctx)
    if case.route == "sequence":
        check_sequence_batch(case, ctx)
    if case.route == "step":
        check_step_dt_history(case, ctx)
