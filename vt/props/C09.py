"""C09 - quaternion arithmetic obeys the Hamilton algebra laws.

Algebraic-law monitor over triples (versors and non-normalised) with an
independent Hamilton product as reference, plus the scalar-last twin monitor."""
import numpy as np

from .. import forms, gens
from ..core import Case, call
from ..oracles import as_real_array
from ..ref import quat as rq

PROP = "C09"
LEVEL = "exploration"
SHARDS = {"quick": 2, "thorough": 16}
THOROUGH_DEPTH = 20      # thorough tier = this many times the base thorough budget (VERIF_DEPTH overrides)
ROUTES = ["Quaternion.normalize", "Quaternion.product", "Quaternion.__mul__", "Quaternion.__matmul__", "Quaternion.__mul__(Quaternion)",
          "orientation.q_prod", "Quaternion.conjugate", "Quaternion.inverse", "Quaternion.inv", "Quaternion.mult_L",
          "Quaternion.mult_R", "orientation.q_mult_L", "orientation.q_mult_R", "orientation.q_conj",
          "Quaternion(order=S)", "QuaternionArray(order=S)", "associativity", "norm-multiplicative", "derived object", "object changed in place"]
REGIONS = {"versor": 100, "nonversor": 100, "near_unit": 60, "special": 60, "whole": 60}
PROBES = [("ahrs.common.quaternion", "Quaternion.product"), ("ahrs.common.orientation", "q_prod"),
          ("ahrs.common.quaternion", "Quaternion.mult_L"), ("ahrs.common.quaternion", "Quaternion.mult_R"),
          ("ahrs.common.orientation", "q_mult_L"), ("ahrs.common.orientation", "q_mult_R"),
          ("ahrs.common.orientation", "q_conj"), ("ahrs.common.quaternion", "Quaternion.inverse"),
          ("ahrs.common.quaternion", "Quaternion.conjugate"), ("ahrs.common.quaternion", "QuaternionArray.conjugate")]
REQUIRED_PROBES = ["quaternion.Quaternion.product", "orientation.q_prod", "quaternion.Quaternion.inverse",
                   "quaternion.Quaternion.conjugate"]
RULE = ("cases = triples (a, b, c) of 4-vectors with norms 1e-2..1e2 (regions: stored as versors; stored non-normalised; "
        "norm within 1e-9..1e-3 of 1, i.e. on both sides of the library's is_versor() tolerance; pure/real/axis-aligned "
        "members); every law is evaluated with versor=True and versor=False storage; non-trivial = all three members "
        "have a non-zero vector part or are in the special region")
ASSUMPTIONS = ["reference Hamilton product in vt/ref/quat.py", "objects with order='S' passed *as arguments* are read by the "
               "library as scalar-first data; the property speaks of what a stored quaternion exposes, so that case is "
               "recorded but not judged"]

REL = 1e-13
TWIN = 1e-15


def generate(rng, tier, shard, nshards):
    regs = list(REGIONS)
    n = gens.budget(3000, tier, nshards)
    for i in range(n):
        reg = regs[i % len(regs)]
        if reg == "near_unit":
            tri = [gens.unit(rng) * (1.0 + float(rng.choice([-1, 1])) * gens.logu(rng, 1e-9, 1e-3)) for _ in range(3)]
            if i % 3 == 0:      # almost the identity itself (inside any is-it-the-identity tolerance): real, or with a vector part of 1e-12..1e-6
                k_ = int(rng.integers(3))
                v_ = gens.axis(rng) * (0.0 if i % 2 else gens.logu(rng, 1e-12, 1e-6))
                tri[k_] = np.r_[float(rng.choice([-1.0, 1.0])) * (1.0 + float(rng.choice([-1, 1])) * gens.logu(rng, 1e-9, 1e-5)), v_]
        elif reg == "special":
            tri = [gens.unit_quat(rng, str(rng.choice(["pure", "real", "axis_aligned", "generic"]))) * gens.logu(rng, 1e-2, 1e2)
                   for _ in range(3)]
        elif reg == "whole":        # whole-number (Lipschitz) quaternions: also multiplied as int arrays, lists and tuples
            tri = []
            for _ in range(3):
                x = rng.integers(-5, 6, 4).astype(float)
                tri.append(x if np.any(x[1:]) else np.array([1.0, 2.0, 0.0, -1.0]))
        else:
            tri = [gens.unit(rng) * gens.logu(rng, 1e-2, 1e2) for _ in range(3)]
        yield Case("all", reg, a=tri[0], b=tri[1], c=tri[2], v=gens.vec3(rng), versor=(reg == "versor") or bool(i % 2 and reg in ("special", "near_unit")))


def nontrivial(case):
    return case.region == "special" or all(np.linalg.norm(case.p[k][1:]) > 0 for k in "abc")


def rel(x, y, scale):
    return float(np.abs(np.asarray(x, float) - np.asarray(y, float)).max() / scale)


def check(case, ctx):
    import ahrs
    from ahrs.common import orientation as o
    Q = ahrs.Quaternion
    versor = bool(case.p["versor"])
    a, b, c, v = (case.p[k].copy() for k in ("a", "b", "c", "v"))
    A, B, C = (Q(x.copy(), versor=versor) for x in (a, b, c))
    # what the objects store is the ground truth for the laws
    aa, bb, cc = (np.array(np.asarray(X.A), dtype=float) for X in (A, B, C))
    na, nb, nc = (np.linalg.norm(x) for x in (aa, bb, cc))
    if versor:
        ctx.le("versor=True stores a unit quaternion", max(abs(na - 1), abs(nb - 1), abs(nc - 1)), 1e-14, route="Quaternion.product")
        ctx.le("versor=True keeps the direction", rel(aa, a / np.linalg.norm(a), 1.0), 1e-15, route="Quaternion.product")
    else:
        ctx.ok("versor=False stores the given values", np.array_equal(aa, a), {"stored": aa, "given": a}, route="Quaternion.product")
    ab = rq.qmul(aa, bb)
    sab = na * nb
    prods = {
        "Quaternion.product": lambda: A.product(bb.copy()),
        "Quaternion.__mul__": lambda: A * bb.copy(),
        "Quaternion.__matmul__": lambda: A @ bb.copy(),
        "Quaternion.__mul__(Quaternion)": lambda: A * B,
        "orientation.q_prod": lambda: o.q_prod(aa.copy(), bb.copy()),
    }
    for r, fn in prods.items():
        out = call(fn)
        if ctx.returned(out, route=r):
            x = as_real_array(ctx, out.value, (4,), route=r, what="product")
            if x is not None:
                ctx.le("product = Hamilton product", rel(x, ab, sab), REL, {"got": x, "ref": ab}, route=r)
    # mixed operands: a right operand typed in whole numbers (an int array, a list or tuple of ints) against a left operand with fractional
    # components - the product is the Hamilton product of the values, whatever the element type of either side
    bw = np.round(bb / nb * 3.0) + 0.0
    if np.any(bw) and not forms.integral(aa):
        abw = rq.qmul(aa, bw)
        sw = na * np.linalg.norm(bw)
        ki = int(abs(float(aa[2])) * 1e6) % 4
        typed = [bw.astype(np.int64), bw.astype(np.int32), [int(x) for x in bw], tuple(int(x) for x in bw)][ki]
        for r, fn in (("Quaternion.product", lambda: A.product(typed)), ("Quaternion.__mul__", lambda: A * typed), ("Quaternion.__matmul__", lambda: A @ typed),
                      ("orientation.q_prod", lambda: o.q_prod(aa.copy(), typed))):
            out = call(fn)
            if not out.ok and isinstance(out.exc, TypeError):
                ctx.note("right operand of element type %s refused with a TypeError (a clear refusal: recorded, not judged)" % ["int64", "int32", "list", "tuple"][ki])
                continue
            if ctx.returned(out, clause="no-exception[right operand typed in whole numbers]", route=r):
                x = np.asarray(out.value)
                if ctx.ok("product with a whole-number-typed right operand is a real 4-vector", x.shape == (4,) and x.dtype.kind in "fiu", {"shape": list(x.shape), "dtype": str(x.dtype)}, route=r):
                    ctx.le("product with a right operand typed in whole numbers = Hamilton product of the values", rel(x, abw, sw), REL,
                           {"got": np.asarray(x, float), "ref": abw, "right_operand": ["int64", "int32", "list", "tuple"][ki], "dtype_of_result": str(x.dtype)}, route=r)
    if case.region == "whole":
        for r, fn in (("Quaternion.product", lambda x, y: Q(x, versor=versor).product(y)), ("Quaternion.__mul__", lambda x, y: np.asarray(Q(x, versor=versor) * y)),
                      ("Quaternion.__matmul__", lambda x, y: np.asarray(Q(x, versor=versor) @ y)), ("orientation.q_prod", lambda x, y: o.q_prod(x, y)),
                      ("Quaternion.__mul__(Quaternion)", lambda x, y: np.asarray(Q(x, versor=versor) * Q(y, versor=versor)))):
            forms.invariant(ctx, r, fn, [a, b])
    # ---- results held at the same time: the product matrices (and conjugates) of two quaternions, all obtained first and used afterwards
    outh = call(lambda: (A.mult_L(), B.mult_L(), A.mult_R(), B.mult_R(), A.conjugate, B.conjugate, A.mult_L(), o.q_mult_L(aa.copy()), o.q_mult_L(bb.copy()), o.q_mult_R(aa.copy()), o.q_mult_R(bb.copy())))
    if ctx.returned(outh, route="Quaternion.mult_L"):
        La, Lb, Ra, Rb, ca_, cb_, La2, fLa, fLb, fRa, fRb = (np.asarray(x, float) for x in outh.value)
        det = {"note": "all results obtained before any is used"}
        ctx.le("two left product matrices held at once are each their own quaternion's", max(rel(La @ cc, rq.qmul(aa, cc), na * nc), rel(Lb @ cc, rq.qmul(bb, cc), nb * nc), rel(La2 @ cc, rq.qmul(aa, cc), na * nc)), REL, det,
               route="Quaternion.mult_L")
        ctx.le("two right product matrices held at once are each their own quaternion's", max(rel(Ra @ cc, rq.qmul(cc, aa), na * nc), rel(Rb @ cc, rq.qmul(cc, bb), nb * nc)), REL, det, route="Quaternion.mult_R")
        ctx.le("two conjugates held at once are each their own quaternion's", max(rel(ca_, rq.qconj(aa), na), rel(cb_, rq.qconj(bb), nb)), REL, det, route="Quaternion.conjugate")
        ua_, ub_ = aa / na, bb / nb      # (the free functions normalise)
        ctx.le("free-function product matrices held at once are each their own quaternion's", max(rel(fLa @ cc, rq.qmul(ua_, cc), nc), rel(fLb @ cc, rq.qmul(ub_, cc), nc), rel(fRa @ cc, rq.qmul(cc, ua_), nc),
               rel(fRb @ cc, rq.qmul(cc, ub_), nc)), REL, det, route="orientation.q_mult_L")
    # ---- objects obtained from a Quaternion by NumPy arithmetic or by modifying a copy (-q, q/2, np.negative(q), c = q.copy(); c[k] = ...): they are
    # Quaternion objects with values of their own, and the algebra must be that of those values
    kk = int(abs(float(aa[1])) * 1e6) % 4
    mod = aa.copy()
    mod[kk] = mod[kk] + 0.75

    def modified_copy():
        Cp = Q(aa.copy(), versor=False).copy()
        Cp[kk] = Cp[kk] + 0.75
        return Cp
    for lab, mk, want in (("-q", lambda: -Q(aa.copy(), versor=False), -aa), ("q/2", lambda: Q(aa.copy(), versor=False) / 2.0, aa / 2.0),
                          ("np.negative(q)", lambda: np.negative(Q(aa.copy(), versor=False)), -aa), ("a modified copy", modified_copy, mod)):
        r = "derived object"
        outd = call(lambda: (lambda D: (np.array([D.w, D.x, D.y, D.z], float), np.asarray(D.conjugate, float), np.asarray(D.product(bb.copy()), float),
                                        np.asarray(Q(bb.copy(), versor=False).product(D), float), np.asarray(Q(bb.copy(), versor=False) * D, float),
                                        np.asarray(D * bb.copy(), float), np.asarray(D.to_array(), float), isinstance(D, Q)))(mk()))
        if not ctx.returned(outd, route=r):
            continue
        wxyz, cj, dprod, pd, pmul, dmul, arr, isq = outd.value
        if not isq:
            ctx.note("%s is not a Quaternion object (plain array): nothing to check" % lab)
            continue
        nw = np.linalg.norm(want)
        det = {"derived_as": lab, "values": want}
        ctx.le("a derived Quaternion exposes its own w, x, y, z and to_array()", max(rel(wxyz, want, nw), rel(arr, want, nw)), REL, dict(det, wxyz=wxyz, to_array=arr), route=r)
        ctx.le("a derived Quaternion's conjugate is that of its own values", rel(cj, rq.qconj(want), nw), REL, dict(det, got=cj), route=r)
        ctx.le("a derived Quaternion multiplies as its own values (left and right operand, method and operator)",
               max(rel(dprod, rq.qmul(want, bb), nw * nb), rel(dmul, rq.qmul(want, bb), nw * nb), rel(pd, rq.qmul(bb, want), nw * nb), rel(pmul, rq.qmul(bb, want), nw * nb)), REL,
               dict(det, left=dprod, right=pd), route=r)
    # ---- one object changed in place between two reads (q *= -1, q /= 2, q[:] = other values, normalize()): every accessor read before the change
    # must answer for the new values afterwards (nothing remembered from the first read)
    def readers(X):
        return (np.array([X.w, X.x, X.y, X.z], float), np.asarray(X.conjugate, float).copy(), np.asarray(X.conj, float).copy(), np.asarray(X.product(bb.copy()), float),
                np.asarray(X.mult_L(), float).copy(), np.asarray(X.mult_R(), float).copy(), np.asarray(X.to_array(), float).copy(), float(np.linalg.norm(np.asarray(X.v))))
    for lab, change, want in (("q *= -1", lambda X: X.__imul__(-1.0), -aa), ("q /= 2", lambda X: X.__itruediv__(2.0), aa / 2.0),
                              ("q[:] = other values", lambda X: X.__setitem__(slice(None), bb.copy()), bb), ("normalize()", lambda X: X.normalize(), aa / na)):
        r = "object changed in place"

        def run_(change=change):
            X = Q(aa.copy(), versor=False)
            first = readers(X)
            change(X)
            return first, readers(X)
        outm = call(run_)
        if not ctx.returned(outm, route=r):
            continue
        _, (wxyz, cj, cj2, pr, L_, R_, arr, nv) = outm.value
        nw = np.linalg.norm(want)
        det = {"changed_by": lab, "values_now": want}
        ctx.le("after an in-place change w, x, y, z, to_array() and |v| are those of the new values", max(rel(wxyz, want, nw), rel(arr, want, nw), abs(nv - np.linalg.norm(want[1:])) / nw), REL, dict(det, wxyz=wxyz), route=r)
        ctx.le("after an in-place change conjugate / conj are those of the new values", max(rel(cj, rq.qconj(want), nw), rel(cj2, rq.qconj(want), nw)), REL, dict(det, conjugate=cj), route=r)
        ctx.le("after an in-place change the product and the product matrices are those of the new values",
               max(rel(pr, rq.qmul(want, bb), nw * nb), rel(L_ @ bb, rq.qmul(want, bb), nw * nb), rel(R_ @ bb, rq.qmul(bb, want), nw * nb)), REL, det, route=r)
    # associativity and norm through the library's own product
    out = call(lambda: (Q(np.asarray(A.product(bb.copy())), versor=False).product(cc.copy()),
                        A.product(np.asarray(Q(bb.copy(), versor=False).product(cc.copy())))))
    if ctx.returned(out, route="associativity"):
        l, r_ = out.value
        ctx.le("(ab)c = a(bc)", rel(l, r_, sab * nc), REL, route="associativity")
        ctx.le("(ab)c = reference", rel(l, rq.qmul(ab, cc), sab * nc), REL, route="associativity")
    out = call(lambda: A.product(bb.copy()))
    if out.ok:
        ctx.le("|ab| = |a||b|", abs(np.linalg.norm(np.asarray(out.value, float)) - sab) / sab, REL, route="norm-multiplicative")
    # conjugation reverses products
    out = call(lambda: (np.asarray(A.conjugate), np.asarray(B.conjugate), np.asarray(A.conj)))
    if ctx.returned(out, route="Quaternion.conjugate"):
        ca, cb, ca2 = (np.array(x, float) for x in out.value)
        ctx.ok("conjugate = (w, -v)", np.array_equal(ca, rq.qconj(aa)) and np.array_equal(ca2, ca), {"got": ca, "q": aa}, route="Quaternion.conjugate")
        o2 = call(lambda: Q(cb.copy(), versor=False).product(ca.copy()))
        if ctx.returned(o2, route="Quaternion.conjugate"):
            ctx.le("(ab)* = b* a*", rel(o2.value, rq.qconj(ab), sab), REL, route="Quaternion.conjugate")
    out = call(lambda: o.q_conj(aa.copy()))
    if ctx.returned(out, route="orientation.q_conj"):
        ctx.ok("q_conj = (w, -v)", np.array_equal(np.asarray(out.value, float), rq.qconj(aa)), route="orientation.q_conj")
    # the free functions given the library's own Quaternion objects (same values) instead of arrays
    for r, fn, args in (("orientation.q_mult_L", lambda x: o.q_mult_L(x), [aa]), ("orientation.q_mult_R", lambda x: o.q_mult_R(x), [aa]),
                        ("orientation.q_conj", lambda x: o.q_conj(x), [aa]), ("orientation.q_prod", lambda x, y: o.q_prod(x, y), [aa, bb])):
        forms.invariant(ctx, r, fn, args, lists=False, objects=True, clause="a Quaternion object holding the same values gives the same result as the array")
    # N-row stacks through the free functions (N = 1 .. 5: N = 4 is a square array, N = 3 looks like vectors)
    for n_ in (1, 2, 3, 4, 5):
        S_ = np.array([aa, bb, cc, rq.qmul(aa, bb), rq.qmul(bb, cc)][:n_])
        out = call(lambda: np.asarray(o.q_conj(S_.copy()), float))
        if ctx.returned(out, clause="no-exception[N-row stack]", route="orientation.q_conj"):
            ctx.ok("q_conj of an N-row stack conjugates every row", out.value.shape == S_.shape and np.array_equal(out.value, S_ * np.array([1.0, -1, -1, -1])), {"N": n_, "got": out.value}, route="orientation.q_conj")
        out = call(lambda: np.asarray(o.q_norm(S_.copy()), float))
        if out.ok and out.value.shape == S_.shape:
            ctx.le("q_norm of an N-row stack normalises every row", np.abs(out.value - S_ / np.linalg.norm(S_, axis=1)[:, None]).max(), 1e-15, {"N": n_}, route="orientation.q_conj")
    # inverse on both sides (for whatever norm is stored)
    mech = "stored norm == 1" if abs(na - 1.0) <= 1e-12 else "stored norm != 1"
    for r, getter in (("Quaternion.inverse", lambda: np.asarray(A.inverse)), ("Quaternion.inv", lambda: np.asarray(A.inv))):
        out = call(getter)
        if not ctx.returned(out, route=r, region=mech):
            continue
        inv = as_real_array(ctx, out.value, (4,), route=r, what="inverse")
        if inv is None:
            continue
        one = np.array([1.0, 0, 0, 0])
        if mech == "stored norm != 1":
            # separate the recorded defect (divides by |q| instead of |q|^2; plain conjugate inside the is_versor()
            # tolerance) from any other wrong inverse, so that only the former can match a known finding
            cj = rq.qconj(aa)
            if rel(inv, cj / na, 1.0 / na) < 1e-13 or (abs(na - 1.0) < 2e-5 and rel(inv, cj, 1.0) < 1e-13):
                mech = "stored norm != 1 [inverse = conj/|q|]"
            else:
                mech = "stored norm != 1 [other]"
        o_r = call(lambda: A.product(inv.copy()))
        o_l = call(lambda: Q(inv.copy(), versor=False).product(aa.copy()))
        if ctx.returned(o_r, route=r, region=mech) and ctx.returned(o_l, route=r, region=mech):
            ctx.le("q inv(q) = 1", np.abs(np.asarray(o_r.value, float) - one).max(), 1e-12,
                   {"q": aa, "inv": inv, "q*inv": np.asarray(o_r.value, float), "norm": na}, route=r, region=mech)
            ctx.le("inv(q) q = 1", np.abs(np.asarray(o_l.value, float) - one).max(), 1e-12,
                   {"q": aa, "inv": inv, "norm": na}, route=r, region=mech)
    # product matrices
    out = call(lambda: (np.asarray(A.mult_L(), float), np.asarray(B.mult_R(), float)))
    if ctx.returned(out, route="Quaternion.mult_L"):
        L, Rm = out.value
        ctx.le("mult_L(a) b = a b", rel(L @ bb, ab, sab), REL, route="Quaternion.mult_L")
        ctx.le("mult_R(b) a = a b", rel(Rm @ aa, ab, sab), REL, route="Quaternion.mult_R")
    ua, ub = aa / na, bb / nb
    uab = rq.qmul(ua, ub)
    out = call(lambda: (np.asarray(o.q_mult_L(ua.copy()), float), np.asarray(o.q_mult_R(ub.copy()), float)))
    if ctx.returned(out, route="orientation.q_mult_L"):
        L, Rm = out.value
        ctx.le("q_mult_L(a) b = a b (unit a)", rel(L @ ub, uab, 1.0), REL, route="orientation.q_mult_L")
        ctx.le("q_mult_R(b) a = a b (unit b)", rel(Rm @ ua, uab, 1.0), REL, route="orientation.q_mult_R")
    # an object normalised in place must expose ONE consistent unit quaternion through every view of it
    r = "Quaternion.normalize"
    for order in ("H", "S"):
        raw = b.copy() if order == "H" else np.r_[b[1:], b[0]]

        def norm_obj():
            o_ = Q(raw.copy(), versor=False, order=order)
            o_.normalize()
            return o_
        out = call(norm_obj)
        if not ctx.returned(out, route=r):
            continue
        Bn = out.value
        ub_ = b / np.linalg.norm(b)
        stored = ub_ if order == "H" else np.r_[ub_[1:], ub_[0]]
        views = call(lambda: (np.array(np.asarray(Bn), float), np.array(Bn.A, float), np.array(Bn.to_array(), float),
                              np.array([Bn.w, Bn.x, Bn.y, Bn.z], float), bool(Bn.is_versor())))
        if ctx.returned(views, route=r):
            arr, A_, ta, wxyz, isv = views.value
            ctx.le("after normalize(): array data, .A and to_array() agree and hold the unit quaternion", max(np.abs(arr - stored).max(), np.abs(A_ - stored).max(), np.abs(ta - stored).max()), 4e-16,
                   {"array": arr, "A": A_, "expected": stored, "order": order}, route=r)
            ctx.le("after normalize(): w, x, y, z are those of the unit quaternion", np.abs(wxyz - ub_).max(), 4e-16, route=r)
            ctx.ok("after normalize(): is_versor()", isv, route=r)
        if order == "H":
            uab2 = rq.qmul(aa, ub_)
            prods2 = call(lambda: (np.array(A.product(Bn), float), np.array(A * Bn, float), np.array(o.q_prod(aa.copy(), Bn), float), np.array(Bn.mult_R() @ aa, float)))
            if ctx.returned(prods2, route=r):
                for nm, val in zip(("product(obj)", "* obj", "q_prod(a, obj)", "obj.mult_R() @ a"), prods2.value):
                    ctx.le("a normalised object used as right operand multiplies like its unit quaternion", rel(val, uab2, na), REL, {"via": nm, "got": val, "ref": uab2}, route=r)
    # scalar-last twin
    aS = np.r_[aa[1:], aa[0]]
    # (every few cases the scalar-last object is one the caller derived from the constructed one - a copy, a view, a full slice: the same quaternion)
    import copy as _copy
    derive = [None, None, lambda X: X.copy(), _copy.copy, _copy.deepcopy, lambda X: X.view(), lambda X: X[:]][int(abs(float(aa[0])) * 1e6) % 7]
    out = call(lambda: Q(aS.copy(), versor=versor, order="S") if derive is None else derive(Q(aS.copy(), versor=versor, order="S")))
    if ctx.returned(out, route="Quaternion(order=S)"):
        AS = out.value
        r = "Quaternion(order=S)"
        obs = call(lambda: dict(w=float(AS.w), x=float(AS.x), y=float(AS.y), z=float(AS.z), v=np.array(AS.v, float),
                                conj=np.array(AS.conjugate, float), prod=np.array(AS.product(bb.copy()), float)))
        if ctx.returned(obs, route=r):
            d = obs.value
            # (re-normalising the permuted data may move the last bit: 4 ulp allowed, relative to the norm)
            ctx.le("S: same w, x, y, z, v", max(rel([d["w"], d["x"], d["y"], d["z"]], aa, na), rel(d["v"], aa[1:], na)), TWIN, d, route=r)
            cj = d["conj"]
            ctx.le("S: same conjugate (in its storage order)", rel(np.r_[cj[3], cj[:3]], rq.qconj(aa), na), TWIN, {"conj": cj}, route=r)
            ctx.le("S: same product with a plain argument", rel(d["prod"], ab, sab), REL, route=r)
        # everything that is a matrix, an angle or a flag (no storage order of its own) must be identical for the two storages
        o4 = call(lambda: [(np.asarray(X.mult_L(), float), np.asarray(X.mult_R(), float), np.asarray(X.to_angles(), float), np.asarray(X.to_axang()[0], float),
                            float(X.to_axang()[1]), float(X.is_pure()), float(X.is_real()), float(X.is_versor()), float(X.is_identity())) for X in (AS, A)])
        if ctx.returned(o4, route=r):
            S_, H_ = o4.value
            ctx.le("S: same mult_L() / mult_R() matrices", max(np.abs(S_[0] - H_[0]).max(), np.abs(S_[1] - H_[1]).max()) / na, TWIN, {"S.mult_R": S_[1], "H.mult_R": H_[1]}, route=r)
            ctx.le("S: mult_R() @ b = b * a (reference)", rel(S_[1] @ bb, rq.qmul(bb, aa), sab), REL, route=r)
            def nd(x, y):      # NaN == NaN (a non-unit quaternion has no Euler angles: both storages must say so alike)
                x, y = np.atleast_1d(np.asarray(x, float)), np.atleast_1d(np.asarray(y, float))
                if not np.array_equal(np.isnan(x), np.isnan(y)):
                    return float("inf")
                d_ = np.abs(x - y)
                return float(np.nanmax(d_)) if np.any(~np.isnan(d_)) else 0.0
            # (re-normalising the permuted data moves the stored components by an ulp; Euler angles amplify that by 1/cos(pitch), the axis by 1/sin(angle/2))
            amp = 1.0 / max(abs(np.cos(H_[2][1])) if np.isfinite(H_[2][1]) else 1.0, 1e-6) + 1.0 / max(abs(np.sin(H_[4] / 2.0)) if np.isfinite(H_[4]) else 1.0, 1e-6)
            ctx.le("S: same to_angles() / to_axang()", max(nd(S_[2], H_[2]), nd(S_[3], H_[3]), nd(S_[4], H_[4])), 1e-13 + 1e-15 * amp, route=r)
            ctx.ok("S: same is_pure / is_real / is_versor / is_identity", S_[5:] == H_[5:], {"S": S_[5:], "H": H_[5:]}, route=r)
        if versor or abs(na - 1) < 1e-12:
            o3 = call(lambda: (np.asarray(AS.to_DCM(), float), np.asarray(A.to_DCM(), float),
                               np.asarray(AS.rotate(v.copy()), float), np.asarray(A.rotate(v.copy()), float)))
            if ctx.returned(o3, route=r):
                ctx.le("S: same rotation matrix", np.abs(o3.value[0] - o3.value[1]).max(), 5e-15, route=r)
                ctx.le("S: rotation matrix = reference", np.abs(o3.value[0] - rq.refR(aa / na)).max(), 5e-14, route=r)
                ctx.le("S: same rotate(v)", rel(o3.value[2], o3.value[3], np.linalg.norm(v)), 5e-15, route=r)
        else:
            # a quaternion kept as given (not of unit length): whatever matrix the class answers with, it is the matrix of *that* quaternion -
            # the two storages of it give the same one (or both refuse)
            o3 = [call(lambda X=X: (np.asarray(X.to_DCM(), float), np.asarray(X.rotate(v.copy()), float))) for X in (AS, A)]
            if o3[0].ok and o3[1].ok:
                sc_ = max(np.abs(o3[1].value[0]).max(), 1e-300)
                ctx.le("S: same matrix for a quaternion kept non-unit (relative to the largest entry)", np.abs(o3[0].value[0] - o3[1].value[0]).max() / sc_, 1e-14,
                       {"S": o3[0].value[0], "H": o3[1].value[0], "|q|": na}, route=r)
                ctx.le("S: same rotate(v) for a quaternion kept non-unit", rel(o3[0].value[1], o3[1].value[1], max(np.linalg.norm(o3[1].value[1]), 1e-300)), 1e-14, route=r)
            else:
                ctx.ok("S: a quaternion kept non-unit is refused by to_DCM()/rotate() in both storages or in neither", o3[0].ok == o3[1].ok,
                       {"S": o3[0].exc_name, "H": o3[1].exc_name}, route=r)
    rowsH = np.array([aa, bb, cc])
    rowsS = np.c_[rowsH[:, 1:], rowsH[:, 0]]
    out = call(lambda: (ahrs.QuaternionArray(rowsS.copy(), versors=versor, order="S"), ahrs.QuaternionArray(rowsH.copy(), versors=versor)))
    if ctx.returned(out, route="QuaternionArray(order=S)"):
        S, H = out.value
        r = "QuaternionArray(order=S)"
        if derive is not None:
            dv = call(lambda: derive(S))
            if not ctx.returned(dv, clause="no-exception[copy / view / slice of the array object]", route=r):
                return
            S = dv.value
        obs = call(lambda: [np.array(x, float) for x in (S.w, H.w, S.x, H.x, S.y, H.y, S.z, H.z, S.v, H.v, S.conjugate(), H.conjugate())])
        if ctx.returned(obs, route=r):
            w = obs.value
            sc = max(na, nb, nc)
            ctx.le("S array: same w, x, y, z, v", max(rel(w[i], w[i + 1], sc) for i in (0, 2, 4, 6, 8)), TWIN, route=r)
            ctx.le("S array: same conjugate (in its storage order)", rel(np.c_[w[10][:, 3], w[10][:, :3]], w[11], sc), TWIN, route=r)
            ctx.le("S array: w, x, y, z = reference rows", max(rel(w[2 * k], rowsH[:, k] / (np.linalg.norm(rowsH, axis=1) if versor else 1.0), sc) for k in range(4)), TWIN, route=r)
        if versor:
            o3 = call(lambda: (np.asarray(S.to_DCM(), float), np.asarray(H.to_DCM(), float)))
            if ctx.returned(o3, route=r):
                ctx.le("S array: same rotation matrices", np.abs(o3.value[0] - o3.value[1]).max(), 5e-15, route=r)
