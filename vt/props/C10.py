"""C10 - attitude representations round-trip (Euler, axis-angle, log/exp, powers).

Round-trip monitors with conditioning-aware tolerances; every expected value
comes from the independent model (elementary matrices, Rodrigues, exp map)."""
import numpy as np

from .. import gens
from ..core import Case, call
from ..oracles import as_real_array
from ..ref import quat as rq

PROP = "C10"
LEVEL = "exploration"
SHARDS = {"quick": 2, "thorough": 16}
THOROUGH_DEPTH = 30      # thorough tier = this many times the base thorough budget (VERIF_DEPTH overrides)
ROUTES = ["rpy/Quaternion", "rpy/QuaternionArray", "rpy/free", "rpy/Quaternion.from_rpy", "rpy/Quaternion.from_angles", "rpy/QuaternionArray.from_rpy", "rpy/cardan", "rpy/cardan[in_deg]", "rpy/QuaternionArray[row between vertical-pitch rows]", "rpy/Quaternion(angles=)", "rpy/QuaternionArray(angles=)", "axang/Quaternion", "axang/free", "axang/DCM",
          "explog/versor", "explog/nonversor", "power", "euler/DCM(euler=)", "euler/rot_seq", "euler/DCM(rpy=)",
          "euler/DCM(x,y,z)", "euler/rotation", "DCM.log", "explog/reused object"]
ANG_REGIONS = ["generic", "tiny", "small", "nearpi", "band", "zero"]
REGIONS = {"rpy:generic": 60, "rpy:near_gimbal": 40, "rpy:small": 40}
REGIONS.update({"rot:" + r: 60 for r in ANG_REGIONS})
REGIONS.update({"euler:generic": 60, "euler:tiny": 60, "euler:degrees": 40})
PROBES = [("ahrs.common.quaternion", "Quaternion.from_rpy"), ("ahrs.common.quaternion", "Quaternion.to_angles"),
          ("ahrs.common.quaternion", "QuaternionArray.from_rpy"), ("ahrs.common.quaternion", "QuaternionArray.to_angles"),
          ("ahrs.common.orientation", "rpy2q"), ("ahrs.common.orientation", "q2rpy"),
          ("ahrs.common.quaternion", "Quaternion.to_axang"), ("ahrs.common.orientation", "axang2quat"),
          ("ahrs.common.orientation", "quat2axang"), ("ahrs.common.dcm", "DCM.to_axisangle"),
          ("ahrs.common.dcm", "DCM.from_axisangle"), ("ahrs.common.quaternion", "Quaternion.logarithm"),
          ("ahrs.common.quaternion", "Quaternion.exponential"), ("ahrs.common.quaternion", "Quaternion.__pow__"),
          ("ahrs.common.dcm", "rotation"), ("ahrs.common.dcm", "rot_seq"), ("ahrs.common.dcm", "DCM.log")]
REQUIRED_PROBES = ["quaternion.Quaternion.from_rpy", "quaternion.Quaternion.to_angles", "orientation.rpy2q", "orientation.q2rpy",
                   "quaternion.Quaternion.to_axang", "dcm.DCM.to_axisangle", "dcm.DCM.from_axisangle",
                   "quaternion.Quaternion.logarithm", "quaternion.Quaternion.exponential", "quaternion.Quaternion.__pow__",
                   "dcm.rotation", "dcm.rot_seq", "dcm.DCM.log"]
RULE = ("three case families: rpy (angle triples in (-pi,pi], |pitch| < pi/2-1e-6, incl. within 1e-6..1e-2 of gimbal lock and "
        "tiny angles), rot (axis + angle in (0, pi): generic, 1e-9..1e-3, 1e-3..0.1, pi-1e-6..pi-0.1, and 1e-3..2e-2 around "
        "the isclose(trace,3) band; exponents a, b in [-3, 3]), euler (sequences of length 1-3 over x,y,z with generic angles, "
        "angles 1e-9..1e-3 rad, and degrees); non-trivial = at least one angle is non-zero")
ASSUMPTIONS = ["elementary rotation matrices, Rodrigues formula and the exponential map in vt/ref/quat.py",
               "DCM.to_axisangle / DCM.log take the angle from arccos((tr-1)/2): first-order accuracy eps/theta near 0 and "
               "eps/(pi-theta) near pi is accepted as the accuracy of the documented formula",
               "Quaternion.logarithm takes the half angle from arccos(w): sqrt(eps) accuracy near w=1 accepted (tol 1e-7 on log/pow clauses)"]


def angdiff(a, b):
    return float(np.abs((np.asarray(a, float) - np.asarray(b, float) + np.pi) % (2 * np.pi) - np.pi).max())


def generate(rng, tier, shard, nshards):
    n = gens.budget(700, tier, nshards)
    for i in range(n):
        k = i % 3
        reg = ["rpy:generic", "rpy:near_gimbal", "rpy:small"][k] if i % 7 else "rpy:generic"
        rpy = np.array([rng.uniform(-np.pi, np.pi), rng.uniform(-np.pi / 2 + 1e-2, np.pi / 2 - 1e-2), rng.uniform(-np.pi, np.pi)])
        if reg == "rpy:near_gimbal":
            rpy[1] = float(rng.choice([-1, 1])) * (np.pi / 2 - gens.logu(rng, 1.0001e-6, 1e-2))
        if reg == "rpy:small":
            rpy = np.array([gens.logu(rng, 1e-9, 1e-3) * float(rng.choice([-1, 1])) for _ in range(3)])
        extra = rng.uniform(-np.pi, np.pi, (int(rng.integers(0, 3)), 3)) * np.array([1, 0.45, 1])
        yield Case("rpy", reg, rpy=rpy, extra=extra)
    for i in range(n):
        reg = ANG_REGIONS[i % len(ANG_REGIONS)]
        ax = gens.axis(rng)
        ang = {"generic": lambda: float(rng.uniform(0.1, np.pi - 0.1)), "tiny": lambda: gens.logu(rng, 1e-9, 1e-3),
               "small": lambda: gens.logu(rng, 1e-3, 1e-1), "nearpi": lambda: float(np.pi - gens.logu(rng, 1e-6, 1e-1)),
               "band": lambda: gens.logu(rng, 1e-3, 2e-2), "zero": lambda: 0.0}[reg]()
        yield Case("rot", "rot:" + reg, axis=ax, angle=ang, a=float(rng.uniform(-3, 3)), b=float(rng.uniform(-3, 3)),
                   scale=gens.logu(rng, 0.1, 10.0) if i % 7 else 1.0 + float(rng.choice([-1.0, 1.0])) * gens.logu(rng, 1e-12, 1e-5))   # every 7th: almost unit
    for i in range(n):
        reg = ["euler:generic", "euler:tiny", "euler:degrees"][i % 3]
        k = int(rng.integers(1, 4))
        seq = "".join(rng.choice(list("xyz"), k))
        if reg == "euler:tiny":
            angs = [gens.logu(rng, 1e-9, 1e-3) * float(rng.choice([-1, 1])) for _ in range(k)]
        elif reg == "euler:degrees":
            angs = [float(rng.uniform(-180, 180)) for _ in range(k)]
        else:
            angs = [float(rng.uniform(-np.pi, np.pi)) for _ in range(k)]
        xyz = [float(rng.uniform(-np.pi, np.pi)) if reg != "euler:tiny" else gens.logu(rng, 1e-9, 1e-3) for _ in range(3)]
        if reg == "euler:degrees":
            xyz = [float(np.degrees(v)) for v in xyz]
        yield Case("euler", reg, seq=seq, angles=angs, xyz=xyz, upper=bool(rng.integers(2)))


def nontrivial(case):
    if case.route == "rpy":
        return bool(np.any(case.p["rpy"] != 0))
    if case.route == "rot":
        return case.p["angle"] > 0 or case.p["scale"] != 1.0
    return any(a != 0 for a in case.p["angles"])


# ---------------------------------------------------------------------------
def check_rpy(case, ctx):
    import ahrs
    from ahrs.common import orientation as o
    rpy = case.p["rpy"]
    R = rq.Rz(rpy[2]) @ rq.Ry(rpy[1]) @ rq.Rx(rpy[0])
    cp = np.cos(rpy[1])
    tol_ang = 1e-13 + 2e-14 / cp          # atan2/arcsin of quantities of size cos(pitch) with absolute error ~eps
    A3 = np.vstack([rpy[None], case.p["extra"]]) if len(case.p["extra"]) else rpy[None]
    routes = {
        "rpy/Quaternion": (lambda h: np.asarray(ahrs.Quaternion(rpy=h)), lambda q: np.asarray(ahrs.Quaternion(q.copy()).to_angles())),
        "rpy/QuaternionArray": (lambda h: np.asarray(ahrs.QuaternionArray(rpy=h))[0],
                                lambda q: np.asarray(ahrs.QuaternionArray(np.array([q, q])).to_angles())[1]),
        "rpy/free": (lambda h: o.rpy2q(h), lambda q: o.q2rpy(q.copy())),
        # secondary entry points and aliases of the same conversions
        "rpy/Quaternion.from_rpy": (lambda h: np.asarray(ahrs.Quaternion().from_rpy(h)), lambda q: np.asarray(ahrs.Quaternion(q.copy()).to_angles())),
        "rpy/Quaternion.from_angles": (lambda h: np.asarray(ahrs.Quaternion().from_angles(h)), lambda q: np.asarray(ahrs.Quaternion(q.copy()).to_angles())),
        "rpy/QuaternionArray.from_rpy": (lambda h: np.asarray(ahrs.QuaternionArray().from_rpy(h))[0], lambda q: np.asarray(ahrs.QuaternionArray(q.copy()[None]).to_angles())[0]),
        "rpy/cardan": (lambda h: o.cardan2q(h), lambda q: o.q2cardan(q.copy())),
        "rpy/cardan[in_deg]": (lambda h: o.cardan2q(h, in_deg=True), lambda q: np.radians(o.q2cardan(q.copy(), in_deg=True))),
        "rpy/Quaternion(angles=)": (lambda h: np.asarray(ahrs.Quaternion(angles=h)), lambda q: np.asarray(ahrs.Quaternion(q.copy()).to_angles())),
        "rpy/QuaternionArray(angles=)": (lambda h: np.asarray(ahrs.QuaternionArray(angles=h))[0], lambda q: np.asarray(ahrs.QuaternionArray(q.copy()[None]).to_angles())[0]),
    }
    # an in-domain row keeps its angles whatever else is in the batch: the array class converts it back between two rows standing exactly at
    # +-90 deg pitch (outside the property's domain themselves; what they come back as is not judged)
    sq_ = np.sqrt(0.5)
    VERT = np.array([[sq_, 0.0, sq_, 0.0], [0.5, 0.5, 0.5, -0.5], [sq_, 0.0, -sq_, 0.0], [0.5, -0.5, -0.5, -0.5]])
    kv = int(abs(float(rpy[0])) * 1e6) % 4
    routes["rpy/QuaternionArray[row between vertical-pitch rows]"] = (lambda h: np.asarray(ahrs.QuaternionArray(rpy=h))[0],
                                                                     lambda q: np.asarray(ahrs.QuaternionArray(np.array([VERT[kv], q, VERT[(kv + 1) % 4]])).to_angles())[1])
    for r, (fwd, back) in routes.items():
        # the array the caller hands over and keeps: the round trip is judged against it afterwards
        held = np.degrees(rpy) if "in_deg" in r else (A3.copy() if "QuaternionArray" in r else rpy.copy())
        pristine = held.copy()
        out = call(fwd, held)
        if not ctx.returned(out, route=r):
            continue
        ctx.ok("the angles handed over are still the caller's angles after the conversion", np.array_equal(held, pristine), {"handed_over": pristine, "afterwards": held}, route=r)
        q = as_real_array(ctx, out.value, (4,), route=r, what="quaternion")
        if q is None:
            continue
        ctx.le("quaternion from rpy is unit", abs(np.linalg.norm(q) - 1), 1e-14, route=r)
        ctx.le("R(q(rpy)) = Rz(yaw) Ry(pitch) Rx(roll)", np.abs(rq.refR(q / np.linalg.norm(q)) - R).max(), 1e-14, {"rpy": rpy, "q": q}, route=r)
        o2 = call(back, q)
        if ctx.returned(o2, route=r):
            ang = as_real_array(ctx, o2.value, (3,), route=r, what="angles")
            if ang is not None:
                ctx.le("rpy -> q -> rpy returns the angles", angdiff(ang, rpy), tol_ang, {"rpy": rpy, "back": ang}, route=r)
    # the free back-conversions handed the library's own objects (q2rpy(Quaternion(rpy=...)) is the natural chaining): the same values, the same angles
    from .. import forms
    qv = rq.qnormalize(np.asarray(o.rpy2q(rpy.copy()), float))

    def flat_axang(q_):
        ax_, an_ = o.quat2axang(q_)
        return np.r_[np.asarray(ax_, float), float(an_)]
    for r, fn in (("rpy/free", lambda q_: o.q2rpy(q_)), ("rpy/cardan", lambda q_: o.q2cardan(q_)), ("rpy/free[q2euler]", lambda q_: o.q2euler(q_)), ("axang/free", flat_axang)):
        forms.invariant(ctx, r, fn, [qv], lists=True, objects=True, tol=1e-12,
                        clause="a back-conversion gives the same angles whether the quaternion comes as an array, a list or one of the library's own objects")
    held_deg = np.degrees(rpy)
    out = call(lambda: (o.rpy2q(held_deg, in_deg=True), o.q2rpy(o.rpy2q(rpy.copy()), in_deg=True)))
    if ctx.returned(out, route="rpy/free"):
        qd, angd = out.value
        ctx.le("q2rpy(rpy2q(a, in_deg), in_deg) returns the caller's a (degrees; the array handed over, as it is afterwards)",
               angdiff(np.radians(np.asarray(o.q2rpy(qd, in_deg=True), float)), np.radians(held_deg)), tol_ang, {"a_afterwards": held_deg, "a_handed_over": np.degrees(rpy)}, route="rpy/free")
        ctx.le("rpy2q(in_deg) = rpy2q(radians)", rq.qdist_sign(qd, o.rpy2q(rpy.copy())), 1e-14, route="rpy/free")
        ctx.le("q2rpy(in_deg) returns degrees", angdiff(np.radians(angd), rpy), tol_ang, route="rpy/free")


def rotvec_err(ax, ang, ax0, ang0):
    return float(np.linalg.norm(np.asarray(ax, float) * float(ang) - np.asarray(ax0) * ang0))


def check_rot(case, ctx):
    import ahrs
    from ahrs.common import orientation as o
    from ahrs.common.dcm import DCM
    ax, th = case.p["axis"], case.p["angle"]
    a, b, sc = case.p["a"], case.p["b"], case.p["scale"]
    q = rq.axang2q(ax, th)
    R = rq.rodrigues(ax, th)
    if th > 0:
        check_axang(ctx, ax, th, sc, q, R)
    check_explog_pow(ctx, ax, th, sc, a, b, q, R)
    # the same quaternion kept scalar-last: axis-angle, Euler angles and matrix are properties of the rotation, not of the storage order
    r = "axang/Quaternion"
    out = call(lambda: [(np.asarray(X.to_axang()[0], float), float(X.to_axang()[1]), np.asarray(X.to_angles(), float), np.asarray(X.to_DCM(), float))
                        for X in (ahrs.Quaternion(np.r_[q[1:], q[0]], order="S"), ahrs.Quaternion(q.copy()))])
    if ctx.returned(out, clause="no-exception[order=S]", route=r):
        (axS, thS, angS, RS), (axH, thH, angH, RH) = out.value
        ctx.le("order='S': to_axang() describes the same rotation", rotvec_err(axS, thS, axH, thH) if th > 0 else abs(thS - thH), 1e-12, {"S": [axS, thS], "H": [axH, thH]}, route=r)
        ctx.le("order='S': same matrix and Euler angles", max(np.abs(RS - RH).max(), float(np.nanmax(np.abs((angS - angH + np.pi) % (2 * np.pi) - np.pi))) if np.all(np.isfinite(angH)) else 0.0), 1e-12, route=r)


def check_axang(ctx, ax, th, sc, q, R):
    import ahrs
    from ahrs.common import orientation as o
    from ahrs.common.dcm import DCM
    # --- quaternion <-> axis-angle (atan2 based: well conditioned everywhere)
    r = "axang/Quaternion"
    out = call(lambda: ahrs.Quaternion(q.copy()).to_axang())
    if ctx.returned(out, route=r):
        ax2, th2 = out.value
        ctx.le("q -> axis-angle returns (axis, angle)", rotvec_err(ax2, th2, ax, th), 1e-14 * max(1.0, th), {"axis": ax2, "angle": th2}, route=r)
        ctx.le("returned axis is a unit vector", abs(np.linalg.norm(ax2) - 1), 1e-14, route=r)
    # the antipodal representative -q (w < 0) describes the same rotation: whatever (axis, angle) is returned must too
    for nm, fn in (("Quaternion.to_axang", lambda x: ahrs.Quaternion(x.copy()).to_axang()), ("quat2axang", lambda x: o.quat2axang(x.copy()))):
        for sgn in (1.0, -1.0):
            out = call(fn, sgn * q)
            if ctx.returned(out, route="axang/Quaternion" if nm[0] == "Q" else "axang/free"):
                ax2, th2 = out.value
                ctx.le("(axis, angle) of +-q describes the rotation of q", np.abs(rq.rodrigues(ax2, float(th2)) - R).max(), 1e-13,
                       {"sign": sgn, "axis": ax2, "angle": th2, "via": nm}, route="axang/Quaternion" if nm[0] == "Q" else "axang/free")
    r = "axang/free"
    out = call(lambda: o.quat2axang(o.axang2quat(ax.copy(), th)))
    if ctx.returned(out, route=r):
        ax2, th2 = out.value
        ctx.le("axis-angle -> q -> axis-angle", rotvec_err(ax2, th2, ax, th), 1e-14 * max(1.0, th), route=r)
    out = call(lambda: (o.axang2quat(ax.copy(), th), o.axang2quat(ax.copy() * sc, np.degrees(th), rad=False)))
    if ctx.returned(out, route=r):
        ctx.le("axang2quat = (cos t/2, sin t/2 u)", np.abs(np.asarray(out.value[0]) - q).max(), 5e-15, route=r)
        ctx.le("axang2quat(rad=False, unnormalised axis)", np.abs(np.asarray(out.value[1]) - q).max(), 1e-14, route=r)
    # --- matrix <-> axis-angle
    r = "axang/DCM"
    for nm, mk in (("DCM(axang=)", lambda: np.asarray(DCM(axang=(ax.copy() * sc, th)))),
                   ("from_axisangle", lambda: DCM().from_axisangle(ax.copy() * sc, th)),
                   ("from_axang", lambda: DCM().from_axang(ax.copy() * sc, th))):
        out = call(mk)
        if ctx.returned(out, route=r):
            M = as_real_array(ctx, out.value, (3, 3), route=r, what="matrix")
            if M is not None:
                ctx.le("axis-angle -> matrix = Rodrigues", np.abs(M - R).max(), 5e-14, {"via": nm}, route=r)
    # DCM.to_axisangle takes the angle from arccos((tr-1)/2) and divides by sin(angle): first-order error of that
    # documented formula is eps/theta near 0 and eps/(pi-theta)^2 near pi (constant 1e-13, i.e. ~450 eps: the measured envelope is ~70 eps/(pi-theta)^2)
    tol_m = 1e-13 + 1e-13 / th + 1e-13 / (np.pi - th) ** 2
    for nm, fn in (("to_axisangle", lambda: DCM(R.copy()).to_axisangle()), ("to_axang", lambda: DCM(R.copy()).to_axang())):
        out = call(fn)
        if ctx.returned(out, route=r):
            ax2, th2 = out.value
            ctx.le("matrix -> axis-angle returns (axis, angle)", rotvec_err(ax2, th2, ax, th), tol_m, {"via": nm, "axis": ax2, "angle": th2, "true": th}, route=r)


def nandiff(x, y):
    """largest difference, NaN counted as equal to NaN (whether a value may be NaN at all is judged by the round-trip clauses)"""
    x, y = np.asarray(x, float), np.asarray(y, float)
    if x.shape != y.shape or not np.array_equal(np.isnan(x), np.isnan(y)):
        return float("inf")
    d = np.abs(x - y)
    return float(np.nanmax(d)) if np.any(~np.isnan(d)) else 0.0


def check_explog_pow(ctx, ax, th, sc, a, b, q, R):
    import ahrs
    from ahrs.common.dcm import DCM
    # --- exp / log
    r = "explog/versor"
    Q = ahrs.Quaternion(q.copy())
    out = call(lambda: np.asarray(Q.logarithm, float))
    if ctx.returned(out, route=r):
        lg = as_real_array(ctx, out.value, (4,), route=r, what="logarithm")
        if lg is not None:
            ctx.le("log(versor) = (0, u theta/2)", np.abs(lg - np.r_[0.0, ax * th / 2]).max(), 1e-7, {"log": lg}, route=r)
            if not np.any(lg):
                ctx.note("log(versor) rounded to the zero quaternion (theta/2 below sqrt(eps)): exp not applicable to a zero vector")
            else:
                o2 = call(lambda: np.asarray(ahrs.Quaternion(lg.copy(), versor=False).exponential, float))
                if ctx.returned(o2, route=r):
                    ctx.le("exp(log q) = q", np.abs(np.asarray(o2.value) - q).max(), 1e-7, route=r)
    if th > 1e-6:   # -q (w < 0): exp must still invert log
        o3 = call(lambda: np.asarray(ahrs.Quaternion(np.asarray(ahrs.Quaternion(-q).logarithm, float), versor=False).exponential, float))
        if ctx.returned(o3, route=r):
            ctx.le("exp(log(-q)) = -q", np.abs(np.asarray(o3.value) + q).max(), 1e-7, route=r)
    out = call(lambda: np.asarray(ahrs.Quaternion(np.r_[0.0, ax * th / 2], versor=False).exp, float)) if th > 0 else None
    if out is not None and ctx.returned(out, route=r):
        ctx.le("exp((0, u theta/2)) = q", np.abs(np.asarray(out.value) - q).max(), 1e-14, route=r)
    r = "explog/nonversor"
    qn = q * sc
    out = call(lambda: np.asarray(ahrs.Quaternion(qn.copy(), versor=False).log, float))
    if ctx.returned(out, route=r) and abs(sc - 1) <= 2e-5:
        # almost-unit quaternion kept as given (inside the library's is_versor() tolerance): the rotation part of its logarithm
        lg = as_real_array(ctx, out.value, (4,), route=r, what="logarithm")
        if lg is not None:
            ctx.le("log of an almost-unit quaternion: vector part = u theta/2", np.abs(lg[1:] - ax * th / 2).max(), 1e-7, {"q": qn, "log": lg, "norm-1": sc - 1}, route=r)
            ctx.le("log of an almost-unit quaternion: scalar part = ln|q| to within the versor tolerance", abs(lg[0] - np.log(sc)), 2.1e-5, route=r)
    if out.ok and abs(sc - 1) > 2e-5:
        lg = as_real_array(ctx, out.value, (4,), route=r, what="logarithm")
        if lg is not None:
            ctx.le("log(s q) = (ln s, u theta/2)", np.abs(lg - np.r_[np.log(sc), ax * th / 2]).max(), 1e-7, route=r)
            # mechanism label: exp() of a quaternion whose vector part is exactly zero returns 1 instead of e^w
            mech = "log has zero vector part" if not np.any(lg[1:]) else None
            if not np.any(lg):
                ctx.ok("exp(log q) = q (non-versor)", False, {"q": qn, "log": lg, "why": "log of a non-unit quaternion is the zero quaternion"}, route=r, region=mech)
            else:
                o2 = call(lambda: np.asarray(ahrs.Quaternion(lg.copy(), versor=False).exponential, float))
                if ctx.returned(o2, route=r, region=mech):
                    ctx.le("exp(log q) = q (non-versor)", np.abs(np.asarray(o2.value) - qn).max() / sc, 1e-7,
                           {"q": qn, "log": lg, "exp(log q)": np.asarray(o2.value)}, route=r, region=mech)
    # --- one object read several times: exp, log and powers are functions of the quaternion, not of what was read before
    r = "explog/reused object"
    for nm, vec in (("versor", q), ("non-versor", qn), ("logarithm", np.r_[np.log(sc), ax * th / 2])):
        if not np.any(vec[1:]):
            continue
        X = ahrs.Quaternion(vec.copy(), versor=False)
        x0 = np.array(X, float)
        reads = call(lambda: [np.array(getattr(X, g), float) for g in ("exponential", "logarithm", "exp", "log", "exponential", "logarithm")] +
                     [np.array(X ** a, float), np.array(X.exponential, float), np.array(X ** a, float)])
        if not ctx.returned(reads, route=r):
            continue
        e1, l1, e2, l2, e3, l3, p1_, e4, p2_ = reads.value
        fresh = call(lambda: (np.array(ahrs.Quaternion(vec.copy(), versor=False).exponential, float), np.array(ahrs.Quaternion(vec.copy(), versor=False).logarithm, float),
                              np.array(ahrs.Quaternion(vec.copy(), versor=False) ** a, float)))
        if not ctx.returned(fresh, route=r):
            continue
        fe, fl, fp = fresh.value
        ctx.ok("exp and log of a finite quaternion with a non-zero vector part are finite", bool(np.all(np.isfinite(fe)) and np.all(np.isfinite(fl))),
               {"object": nm, "quaternion": vec, "exp": fe, "log": fl}, route=r)
        ctx.le("every read of exp on one object equals exp of a fresh equal object", max(nandiff(x, fe) for x in (e1, e2, e3, e4)), 0.0, {"object": nm, "reads": [e1, e2, e3, e4], "fresh": fe}, route=r)
        ctx.le("every read of log on one object equals log of a fresh equal object", max(nandiff(x, fl) for x in (l1, l2, l3)), 0.0, {"object": nm}, route=r)
        ctx.le("q**a on an object already read equals q**a of a fresh equal object", max(nandiff(p1_, fp), nandiff(p2_, fp)), 0.0, {"object": nm}, route=r)
        ctx.le("reading exp / log / ** leaves the quaternion unchanged", np.abs(np.array(X, float) - x0).max(), 0.0, {"object": nm, "before": x0, "after": np.array(X, float)}, route=r)
    # --- powers
    r = "power"
    tolp = lambda e: 1e-7 * max(1.0, abs(e))  # noqa: E731
    out = call(lambda: [np.asarray(Q ** e, float) for e in (1, 0, a, b, a + b, 1.0, -1.0, 2)])
    if ctx.returned(out, route=r):
        p1, p0, pa, pb, pab, p1f, pm1, p2 = out.value
        if as_real_array(ctx, pa, (4,), route=r, what="power") is not None:
            ctx.le("q^1 = q", rq.qdist_sign(p1, q) if False else np.abs(p1 - q).max(), tolp(1), {"q^1": p1, "q": q}, route=r)
            ctx.le("q^1.0 = q", np.abs(p1f - q).max(), tolp(1), route=r)
            ctx.le("q^0 = 1", np.abs(p0 - np.array([1.0, 0, 0, 0])).max(), tolp(0), {"q^0": p0}, route=r)
            ctx.le("q^a = rotation by a*theta about the same axis", np.abs(pa - rq.axang2q(ax, a * th)).max(), tolp(a), {"a": a, "q^a": pa}, route=r)
            ctx.le("q^a q^b = q^(a+b)", np.abs(rq.qmul(pa, pb) - pab).max(), tolp(abs(a) + abs(b)), route=r)
            ctx.le("q^-1 = conjugate", np.abs(pm1 - rq.qconj(q)).max(), tolp(1), route=r)
            ctx.le("q^2 = q q", np.abs(p2 - rq.qmul(q, q)).max(), tolp(2), route=r)
    # whole-number exponents of every spelling (Python int, NumPy integer, float): q^n = rotation by n*theta, negative n included
    out = call(lambda: {(lab, n): np.asarray(Q ** mk(n), float) for n in (-3, -2, -1, 0, 1, 2, 3) for lab, mk in (("int", int), ("np.int64", np.int64), ("float", float))})
    if ctx.returned(out, clause="no-exception[whole-number exponents]", route=r):
        for (lab, n), val in out.value.items():
            if as_real_array(ctx, val, (4,), route=r, what="power") is not None:
                ctx.le("q^n = rotation by n*theta about the same axis (whole-number exponent)", np.abs(val - rq.axang2q(ax, n * th)).max(), tolp(n), {"n": n, "exponent_type": lab, "q^n": val}, route=r)
    # --- matrix logarithm
    r = "DCM.log"
    out = call(lambda: np.asarray(DCM(R.copy()).log, float))
    if ctx.returned(out, route=r):
        L = as_real_array(ctx, out.value, (3, 3), route=r, what="log matrix")
        if L is not None and th == 0:
            ctx.le("log(I) = 0", np.abs(L).max(), 0.0, route=r)
        elif L is not None and th <= np.pi - 1e-4:
            ctx.le("log(R) is skew-symmetric", np.abs(L + L.T).max(), 1e-15 * max(1.0, 1 / (np.pi - th)), route=r)
            # (the logarithm takes its angle from atan2 of the skew part since the repair of the arccos form: accurate however small the angle;
            #  only the neighbourhood of pi, where the skew part itself vanishes, is ill-conditioned)
            rel_tol = 1e-12 + 4e-16 / (np.pi - th) ** 2
            ctx.le("|log R|_F = sqrt(2) theta", abs(np.linalg.norm(L) - np.sqrt(2) * th) / (np.sqrt(2) * th), rel_tol,
                   {"fro": float(np.linalg.norm(L)), "theta": th}, route=r)
            K = th * np.array([[0, -ax[2], ax[1]], [ax[2], 0, -ax[0]], [-ax[1], ax[0], 0]])
            # the library documents log(R) with the sign of theta (R^T - R)/(2 sin theta); the property fixes only
            # skew-symmetry and magnitude, so the generator is compared up to one global sign
            ctx.le("log R = +-theta [u]x", min(np.abs(L - K).max(), np.abs(L + K).max()) / th, rel_tol, route=r)


def check_euler(case, ctx):
    from ahrs.common.dcm import DCM, rot_seq, rotation
    seq, angs, xyz = case.p["seq"], list(case.p["angles"]), list(case.p["xyz"])
    deg = case.region == "euler:degrees"
    rad = (lambda v: np.radians(v)) if deg else (lambda v: v)
    if case.p["upper"]:
        seq = seq.upper()
    Rref = np.eye(3)
    for s, a_ in zip(seq.lower(), angs):
        Rref = Rref @ rq.ELEM[s](rad(a_))
    tol = 1e-14 * (1 + len(seq))
    r = "euler/rot_seq"
    for nm, fn in (("str", lambda: rot_seq(seq, list(angs), degrees=deg)), ("list", lambda: rot_seq(list(seq), list(angs), degrees=deg))):
        out = call(fn)
        if ctx.returned(out, route=r):
            M = as_real_array(ctx, out.value, (3, 3), route=r, what="matrix")
            if M is not None:
                ctx.le("rot_seq = ordered product of elementary rotations", np.abs(M - Rref).max(), tol, {"seq": seq, "angles": angs, "via": nm}, route=r)
    if not deg:
        r = "euler/DCM(euler=)"
        out = call(lambda: np.asarray(DCM(euler=(seq, list(angs)))))
        if ctx.returned(out, route=r):
            M = as_real_array(ctx, out.value, (3, 3), route=r, what="matrix")
            if M is not None:
                ctx.le("DCM(euler=) = ordered product of elementary rotations", np.abs(M - Rref).max(), tol, {"seq": seq, "angles": angs}, route=r)
        r = "euler/DCM(rpy=)"
        out = call(lambda: np.asarray(DCM(rpy=list(xyz))))
        if ctx.returned(out, route=r):
            M = as_real_array(ctx, out.value, (3, 3), route=r, what="matrix")
            if M is not None:
                ctx.le("DCM(rpy=a) = Rz(a0) Ry(a1) Rx(a2)", np.abs(M - rq.Rz(xyz[0]) @ rq.Ry(xyz[1]) @ rq.Rx(xyz[2])).max(), 4e-14, {"angles": xyz}, route=r)
    r = "euler/DCM(x,y,z)"
    kw = {"degrees": True} if deg else {}
    out = call(lambda: np.asarray(DCM(x=xyz[0], y=xyz[1], z=xyz[2], **kw)))
    if ctx.returned(out, route=r):
        M = as_real_array(ctx, out.value, (3, 3), route=r, what="matrix")
        if M is not None:
            ctx.le("DCM(x=,y=,z=) = Rx Ry Rz", np.abs(M - rq.Rx(rad(xyz[0])) @ rq.Ry(rad(xyz[1])) @ rq.Rz(rad(xyz[2]))).max(), 4e-14, {"xyz": xyz}, route=r)
    r = "euler/rotation"
    for k, s in enumerate("xyz"):
        for axarg in (s, s.upper(), k):
            out = call(lambda: rotation(axarg, xyz[k], degrees=deg))
            if ctx.returned(out, route=r):
                M = as_real_array(ctx, out.value, (3, 3), route=r, what="matrix")
                if M is not None:
                    ctx.le("rotation(axis, angle) = elementary rotation", np.abs(M - rq.ELEM[s](rad(xyz[k]))).max(), 1e-14,
                           {"axis": axarg, "angle": xyz[k], "degrees": deg}, route=r)


def check(case, ctx):
    {"rpy": check_rpy, "rot": check_rot, "euler": check_euler}[case.route](case, ctx)
