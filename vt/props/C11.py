"""C11 - constructors only ever produce valid rotations and reject what cannot be one.

Invariant monitors on every constructed object + a rejection monitor (the
exception type must be ValueError or TypeError, and there must be one)."""
import numpy as np

from .. import gens
from ..core import Case, call
from ..oracles import as_real_array
from ..ref import quat as rq

PROP = "C11"
LEVEL = "exploration"
SHARDS = {"quick": 2, "thorough": 16}
THOROUGH_DEPTH = 30      # thorough tier = this many times the base thorough budget (VERIF_DEPTH overrides)
ROUTES = ["Quaternion(v)", "QuaternionArray(V)", "DCM(R)", "DCM(q=)", "DCM(x,y,z)", "DCM(rpy=)", "DCM(euler=)", "DCM(axang=)",
          "Quaternion.__add__", "Quaternion.__sub__", "random_attitudes", "Quaternion(random=True)", "QuaternionArray(int)",
          "QuaternionArray.rotate_by", "QuaternionArray.average", "reject/Quaternion", "reject/QuaternionArray", "reject/DCM",
          "reject/Quaternion(dcm=)", "accept/DCM", "accept/Quaternion(dcm=)"]
REGIONS = {"vec:tiny": 40, "vec:huge": 40, "vec:moderate": 40, "vec:mixed": 40, "vec:near-unit": 40, "dcm": 100, "ops": 100, "reject:vector": 60,
           "reject:matrix": 100, "accept:matrix": 60}
PROBES = [("ahrs.common.dcm", "_assert_SO3"), ("ahrs.common.quaternion", "random_attitudes"),
          ("ahrs.common.quaternion", "QuaternionArray.average"), ("ahrs.common.quaternion", "QuaternionArray.rotate_by"),
          ("ahrs.common.quaternion", "Quaternion.__add__"), ("ahrs.common.quaternion", "Quaternion.__sub__"),
          ("ahrs.common.quaternion", "Quaternion.from_DCM")]
REQUIRED_PROBES = ["dcm._assert_SO3", "quaternion.random_attitudes", "quaternion.QuaternionArray.average",
                   "quaternion.QuaternionArray.rotate_by", "quaternion.Quaternion.from_DCM"]
RULE = ("families: vec (finite non-zero 3-/4-vectors, norms 1e-100..1e100, also components spread over 30 decades), dcm (all "
        "keyword routes with random angles/axes/quaternions), ops (sums, differences at least 1e-3 from vanishing, random "
        "attitudes, rotate_by, average of spread and clustered arrays, weights, spans), reject:vector (zero, NaN, inf, wrong "
        "length/rank, strings, booleans, None members), reject:matrix (>= 1e-4 from SO(3): scaled, sheared, reflected, -R, NaN, "
        "inf, zeros, wrong shapes), accept:matrix (<= 1e-12 from SO(3)); non-trivial = all")
ASSUMPTIONS = ["distance to SO(3) measured by the harness with an SVD polar projection",
               "matrices between 1e-12 and 1e-4 from SO(3) are not judged (the library's gate is allclose, rtol 1e-5 / atol 1e-8)",
               "rotate_by(order='S') AxisError and DCM(list) AttributeError are crashes on valid input, not invalid objects; recorded, not judged"]

REJECT = (ValueError, TypeError)


def so3_dist(M):
    U, _, Vt = np.linalg.svd(M)
    P = U @ np.diag([1, 1, np.linalg.det(U @ Vt)]) @ Vt
    return float(np.abs(M - P).max())


def near_unit(rng):
    return 1.0 + float(rng.choice([-1.0, 1.0])) * gens.logu(rng, 1e-12, 3e-5)


def generate(rng, tier, shard, nshards):
    n = gens.budget(420, tier, nshards)
    for i in range(n):
        reg = ["vec:tiny", "vec:huge", "vec:moderate", "vec:mixed", "vec:near-unit"][i % 5]
        dim = 3 + (i // 5) % 2
        lo, hi = {"vec:tiny": (1e-100, 1e-20), "vec:huge": (1e20, 1e100), "vec:moderate": (1e-3, 1e3), "vec:mixed": (1.0, 1.0), "vec:near-unit": (1.0, 1.0)}[reg]
        if reg == "vec:near-unit":      # almost normalised (typed with a few decimals, or a unit vector that drifted): inside np.isclose's default band around 1
            v = gens.unit(rng, dim=dim) * near_unit(rng)
        else:
            v = gens.unit(rng, dim=dim) * gens.logu(rng, lo, hi) if reg != "vec:mixed" else \
                rng.standard_normal(dim) * 10.0 ** rng.uniform(-30, 0, dim) * gens.logu(rng, 1e-60, 1e60)
        nrows = int(rng.integers(1, 5))
        V = np.vstack([v] + [gens.unit(rng, dim=dim) * gens.logu(rng, 1e-100, 1e100) for _ in range(nrows - 1)])
        yield Case("vec", reg, v=v, V=V)
    for i in range(n):
        k = int(rng.integers(1, 4))
        nu = i % 3 == 2             # every third case: quaternion and axis almost (not exactly) of unit length
        yield Case("dcm", "dcm", q=gens.unit(rng) * (near_unit(rng) if nu else gens.logu(rng, 1e-3, 1e3)), xyz=rng.uniform(-np.pi, np.pi, 3),
                   seq="".join(rng.choice(list("xyz"), k)), angles=[float(a) for a in rng.uniform(-np.pi, np.pi, k)],
                   axis=gens.axis(rng) * near_unit(rng) if nu else gens.vec3(rng, 1e-3, 1e3), angle=float(rng.uniform(-2 * np.pi, 2 * np.pi)),
                   R=rq.rodrigues(*gens.rot_axang(rng, str(rng.choice(["generic", "tiny", "nearpi", "half_oblique"])))),
                   noise=rng.uniform(-1, 1, (3, 3)) * gens.logu(rng, 1e-17, 3e-14))
    for i in range(n):
        p, q = gens.unit(rng), gens.unit(rng)
        N = int(rng.integers(2, 40))
        clustered = bool(i % 2)
        centre = gens.unit(rng)
        spread = gens.logu(rng, 1e-6, 0.2)
        if clustered:
            Q = centre + spread * rng.standard_normal((N, 4))
            Q *= rng.choice([-1.0, 1.0], N)[:, None] if i % 4 == 1 else 1.0
        else:
            Q = rng.standard_normal((N, 4))
        yield Case("ops", "ops", p=p, q=q, Q=Q, centre=centre, spread=spread, clustered=clustered, rq=gens.unit(rng) * gens.logu(rng, 0.1, 10),
                   n=int(rng.integers(1, 30)), weights=rng.uniform(0.1, 2.0, N), use_weights=bool(rng.integers(2)), seed=int(rng.integers(2**31)))
    kinds_v = ["complex", "zero4", "zero3", "nan", "inf", "len2", "len5", "len1", "rank2", "string", "strlist", "bool", "none_member", "empty",
               "zero_row", "nan_row", "inf_row", "rank1_for_array", "rank3", "cols5", "cols2"]
    for i in range(max(n // 2, len(kinds_v) * 3)):
        yield Case("reject_vec", "reject:vector", kind=kinds_v[i % len(kinds_v)], base=gens.unit(rng) * gens.logu(rng, 1e-3, 1e3), pos=int(rng.integers(4)))
    kinds_m = ["scaled", "sheared", "sheared_left", "skewed_pair", "complex_orthogonal", "complex_tiny_imag", "reflected", "negated", "nan", "inf", "zeros", "2x2", "3x4", "flat9", "nonorth", "singular", "ones"]
    for i in range(max(n, len(kinds_m) * 8)):
        yield Case("reject_mat", "reject:matrix", kind=kinds_m[i % len(kinds_m)], R=rq.rodrigues(*gens.rot_axang(rng, "generic")),
                   eps=gens.logu(rng, 3e-4, 1.0) * float(rng.choice([-1, 1])), i=int(rng.integers(3)), j=int(rng.integers(3)),
                   G=rng.standard_normal((3, 3)))
    for i in range(n // 2 + 60):
        yield Case("accept_mat", "accept:matrix", R=rq.rodrigues(*gens.rot_axang(rng, str(rng.choice(["generic", "tiny", "nearpi", "half_axis", "identity"])))),
                   noise=rng.uniform(-1, 1, (3, 3)) * gens.logu(rng, 1e-17, 3e-13))


def unit_clause(ctx, r, arr, tol=1e-12):
    n = np.linalg.norm(np.asarray(arr, float), axis=-1)
    return ctx.le("result is a unit quaternion", float(np.max(np.abs(n - 1))), tol, route=r)


def check_vec(case, ctx):
    import ahrs
    v, V = case.p["v"], case.p["V"]
    r = "Quaternion(v)"
    out = call(lambda: ahrs.Quaternion(v.copy()))
    if ctx.returned(out, route=r):
        q = as_real_array(ctx, np.asarray(out.value), (4,), route=r, what="quaternion")
        if q is not None:
            unit_clause(ctx, r, q)
            full = v if v.size == 4 else np.r_[0.0, v]
            ctx.le("points the same way as the input", np.abs(q - full / np.linalg.norm(full / np.abs(full).max()) / np.abs(full).max()).max(), 1e-14, {"v": v, "q": q}, route=r)
            if v.size == 3:
                ctx.ok("3-vector gives a pure quaternion", q[0] == 0.0, route=r)
            ctx.ok("object reports itself as a versor", bool(out.value.is_versor()), route=r)
    if v.size == 4:      # scalar-last storage: the stored quaternion is the unit vector of the given components, whatever their order means
        out = call(lambda: ahrs.Quaternion(v.copy(), order="S"))
        if ctx.returned(out, clause="no-exception[order=S]", route=r):
            qs = as_real_array(ctx, np.asarray(out.value), (4,), route=r, what="quaternion")
            if qs is not None:
                unit_clause(ctx, r, qs)
                full = v / np.abs(v).max()
                ctx.le("order='S': stored components are the normalised given ones", np.abs(qs - full / np.linalg.norm(full)).max(), 1e-14, route=r)
                ctx.le("order='S': w is the last stored component", abs(float(out.value.w) - qs[3]) + np.abs(np.asarray(out.value.v, float) - qs[:3]).max(), 0.0, route=r)
    for inp, nm in ((v.tolist(), "list"), (tuple(v.tolist()), "tuple")):
        out = call(lambda: np.asarray(ahrs.Quaternion(inp)))
        if ctx.returned(out, route=r):
            unit_clause(ctx, r, out.value)
    # the same vector / rows in other memory layouts: strided view, reversed-then-reversed view, read-only array, Fortran order
    big = np.full(v.size * 2, 3.25)
    big[::2] = v
    ro = v.copy()
    ro.setflags(write=False)
    for lab, arr in (("strided view", big[::2]), ("read-only", ro), ("negative-stride view", v[::-1].copy()[::-1])):
        before = arr.copy()
        out = call(lambda: np.array(np.asarray(ahrs.Quaternion(arr)), float))
        if ctx.returned(out, clause="no-exception[%s]" % lab, route=r):
            full = v if v.size == 4 else np.r_[0.0, v]
            sc_ = np.abs(full).max()
            ctx.le("a vector given in another memory layout builds the same unit quaternion", np.abs(out.value - (full / sc_) / np.linalg.norm(full / sc_)).max(), 1e-14, {"layout": lab}, route=r)
        ctx.ok("the caller's vector is left as it was", np.array_equal(arr, before), {"layout": lab}, route=r)
    r = "QuaternionArray(V)"
    Vbig = np.full((V.shape[0], V.shape[1] * 2), 1.5)
    Vbig[:, ::2] = V
    for lab, arr in (("Fortran order", np.asfortranarray(V)), ("strided view", Vbig[:, ::2]), ("transposed copy", np.ascontiguousarray(V.T).T)):
        out = call(lambda: ahrs.QuaternionArray(arr))
        if ctx.returned(out, clause="no-exception[%s]" % lab, route=r):
            QA_ = out.value
            fullV = V if V.shape[1] == 4 else np.c_[np.zeros(len(V)), V]
            scV = np.abs(fullV).max(axis=1)[:, None]
            refV = (fullV / scV) / np.linalg.norm(fullV / scV, axis=1)[:, None]
            ctx.le("rows given in another memory layout build the same unit quaternions (array data and .array)",
                   max(np.abs(np.array(np.asarray(QA_), float) - refV).max(), np.abs(np.array(QA_.array, float) - refV).max()), 1e-14, {"layout": lab}, route=r)
    out = call(lambda: ahrs.QuaternionArray(V.copy()))
    if ctx.returned(out, route=r):
        Q = as_real_array(ctx, np.asarray(out.value), (len(V), 4), route=r, what="quaternion array")
        if Q is not None:
            unit_clause(ctx, r, Q)
            full = V if V.shape[1] == 4 else np.c_[np.zeros(len(V)), V]
            sc = np.abs(full).max(axis=1)[:, None]
            ref = (full / sc) / np.linalg.norm(full / sc, axis=1)[:, None]
            ctx.le("rows point the same way as the input rows", np.abs(Q - ref).max(), 1e-14, route=r)


def check_dcm(case, ctx):
    import ahrs
    from ahrs.common.dcm import DCM
    p = case.p
    xyz = [float(a) for a in p["xyz"]]
    routes = {
        "DCM(R)": lambda: DCM(p["R"] + p["noise"]),
        "DCM(q=)": lambda: DCM(q=p["q"].copy()),
        "DCM(x,y,z)": lambda: DCM(x=xyz[0], y=xyz[1], z=xyz[2]),
        "DCM(rpy=)": lambda: DCM(rpy=xyz),
        "DCM(euler=)": lambda: DCM(euler=(p["seq"], list(p["angles"]))),
        "DCM(axang=)": lambda: DCM(axang=(p["axis"].copy(), p["angle"])),
    }
    for r, fn in routes.items():
        out = call(fn)
        if ctx.returned(out, route=r):
            M = as_real_array(ctx, np.asarray(out.value), (3, 3), route=r, what="matrix")
            if M is not None:
                ctx.le("constructed DCM is a proper rotation", rq.so3_defect(M), 1e-12, {"M": M}, route=r)
                ctx.ok("object is a DCM", isinstance(out.value, DCM), route=r)
    ctx.le("reference: DCM(q=) equals R(q)", 0.0, 1.0, route="DCM(q=)")
    # a default-constructed DCM used as a container and filled in place must not change what the next default construction (or any validation) sees
    def container_():
        D0 = DCM()
        D0[:, 0], D0[:, 1], D0[:, 2] = p["R"][:, 0], p["R"][:, 1], p["R"][:, 2]
        return np.array(DCM(), float), np.array(DCM(p["R"].copy()), float)
    oc = call(container_)
    if ctx.returned(oc, clause="no-exception[after a default DCM() was filled in place]", route="DCM(R)"):
        ctx.le("DCM() is the identity whatever was done to an earlier default-constructed object", float(np.abs(oc.value[0] - np.identity(3)).max()), 0.0, route="DCM(R)")
    # ---- a non-finite angle on the angle routes is not a rotation either: rejected, not wrapped
    bad = [float("nan"), float("inf"), -float("inf")][int(abs(xyz[2]) * 1e6) % 3]
    kb = int(abs(xyz[1]) * 1e6) % 3
    xyz_b = list(xyz)
    xyz_b[kb] = bad
    angs_b = [float(a) for a in p["angles"]]
    angs_b[kb % len(angs_b)] = bad
    for r, fn in (("reject/DCM(x,y,z)", lambda: DCM(**{"xyz"[kb]: bad})), ("reject/DCM(x,y,z)", lambda: DCM(x=xyz_b[0], y=xyz_b[1], z=xyz_b[2])),
                  ("reject/DCM(rpy=)", lambda: DCM(rpy=list(xyz_b))), ("reject/DCM(euler=)", lambda: DCM(euler=(str(p["seq"]), list(angs_b)))),
                  ("reject/DCM(axang=)", lambda: DCM(axang=(p["axis"].copy(), bad)))):
        must_reject(ctx, r, fn, {"kind": "non-finite angle", "angle": str(bad)})
    # ---- the free constructions, also with a null angle somewhere (exact 0 or whole turns), and the result buffer handed back to the caller:
    # a caller that goes on computing in place with a matrix it received must not change what the next construction returns
    from ahrs.common.dcm import rotation, rot_seq
    seq, angs = str(p["seq"]), [float(a) for a in p["angles"]]
    null = [0.0, 2 * np.pi, -4 * np.pi, 0.0][int(abs(xyz[0]) * 1e6) % 4]
    angs0 = list(angs)
    angs0[int(abs(xyz[1]) * 1e6) % len(angs0)] = null
    # one angle tiny but not zero (1e-12 .. 1e-7 rad), or within that of a right angle: matrix entries of that size are what keeps the columns orthogonal
    tiny = 10.0 ** (-12.0 + 5.0 * ((abs(xyz[0]) * 1e3) % 1.0)) * (1.0 if xyz[1] > 0 else -1.0)
    angs_t = list(angs)
    angs_t[int(abs(xyz[2]) * 1e6) % len(angs_t)] = tiny if int(abs(xyz[0]) * 1e6) % 2 else np.pi / 2 + tiny
    xyz_t = list(xyz)
    xyz_t[int(abs(xyz[2]) * 1e6) % 3] = tiny
    for r, fn in (("rot_seq()[a tiny angle]", lambda: rot_seq(seq, list(angs_t))), ("DCM(euler=)[a tiny angle]", lambda: DCM(euler=(seq, list(angs_t)))),
                  ("DCM(rpy=)[a tiny angle]", lambda: DCM(rpy=list(xyz_t))), ("DCM(x,y,z)[a tiny angle]", lambda: DCM(x=xyz_t[0], y=xyz_t[1], z=xyz_t[2])),
                  ("rot_seq()[three axes, a tiny angle]", lambda: rot_seq("zyx", [xyz[2], tiny, xyz[0]])), ("DCM(axang=)[a tiny angle]", lambda: DCM(axang=(p["axis"].copy(), tiny)))):
        out = call(fn)
        if ctx.returned(out, route=r):
            Mt = as_real_array(ctx, np.asarray(out.value), (3, 3), route=r, what="matrix")
            if Mt is not None:
                ctx.le("constructed DCM is a proper rotation", rq.so3_defect(Mt), 1e-12, {"M": Mt, "tiny_angle": tiny}, route=r)
    free = {
        "rotation()": lambda: rotation(seq[0], angs[0]),
        "rotation()[null angle]": lambda: rotation(seq[0], null),
        "rotation()[null angle, degrees]": lambda: rotation(seq[0], null and 360.0 * np.sign(null), degrees=True),
        "rot_seq()": lambda: rot_seq(seq, list(angs)),
        "rot_seq()[a null angle]": lambda: rot_seq(seq, list(angs0)),
        "DCM(x,y,z)[a null angle]": lambda: DCM(x=null, y=xyz[1], z=xyz[2]),
        "DCM(rpy=)[a null angle]": lambda: DCM(rpy=[xyz[0], null, xyz[2]]),
        "DCM(euler=)[a null angle]": lambda: DCM(euler=(seq, list(angs0))),
    }
    for r, fn in free.items():
        out = call(fn)
        if not ctx.returned(out, route=r):
            continue
        M = as_real_array(ctx, np.asarray(out.value), (3, 3), route=r, what="matrix")
        if M is None:
            continue
        ctx.le("constructed DCM is a proper rotation", rq.so3_defect(M), 1e-12, {"M": M}, route=r)
        buf = out.value if isinstance(out.value, np.ndarray) else None
        if buf is not None and buf.flags.writeable:
            keep = np.array(buf, float)
            try:
                np.add(buf, 0.25, out=buf.view(np.ndarray))          # the caller accumulates into what it was given
                again = call(fn)
                if ctx.returned(again, route=r, clause="no-exception[after the caller modified an earlier result in place]"):
                    M2 = np.asarray(again.value, float)
                    ctx.le("after the caller modified an earlier result in place the construction still returns the same proper rotation",
                           max(rq.so3_defect(M2), float(np.abs(M2 - keep).max())), 1e-12, {"M2": M2, "first": keep}, route=r)
            finally:
                buf.view(np.ndarray)[...] = keep
    out = call(lambda: np.asarray(DCM(x=xyz[0])), )
    if ctx.returned(out, route="DCM(x,y,z)"):
        ctx.le("single-axis keyword gives a proper rotation", rq.so3_defect(np.asarray(out.value, float)), 1e-12, route="DCM(x,y,z)")


def check_ops(case, ctx):
    import ahrs
    from ahrs.common.quaternion import random_attitudes
    p, q, Q = case.p["p"], case.p["q"], case.p["Q"]
    P = ahrs.Quaternion(p.copy())
    for r, fn, ref in (("Quaternion.__add__", lambda: P + ahrs.Quaternion(q.copy()), p + q),
                       ("Quaternion.__sub__", lambda: P - ahrs.Quaternion(q.copy()), p - q)):
        if np.linalg.norm(ref) < 1e-3:
            ctx.note("vanishing sum/difference skipped")
            continue
        out = call(fn)
        if ctx.returned(out, route=r):
            x = as_real_array(ctx, np.asarray(out.value), (4,), route=r, what="quaternion")
            if x is not None:
                unit_clause(ctx, r, x)
                ctx.le("normalised sum/difference", np.abs(x - ref / np.linalg.norm(ref)).max(), 1e-14, route=r)
    # sums and differences that are no rotation: operands that cancel exactly (q - q, q + (-q): the zero vector), an operand with a non-finite
    # entry, an operand that is a stack - refused, never wrapped as a Quaternion holding NaN or the wrong shape
    pa = np.array(np.asarray(P), float)
    bad_ops = (("q - q (the same object)", lambda: P - P), ("q - (an equal quaternion)", lambda: P - ahrs.Quaternion(pa.copy(), versor=False)), ("q + (-q) as an array", lambda: P + (-pa)),
               ("q + (operand with NaN)", lambda: P + np.array([np.nan, q[1], q[2], q[3]])), ("q - (operand with inf)", lambda: P - np.array([q[0], np.inf, q[2], q[3]])),
               ("q + (a one-row stack)", lambda: P + q.copy()[None]), ("q - (a two-row stack)", lambda: P - np.array([q, p])))
    for lab, fn in bad_ops:
        must_reject(ctx, "Quaternion.__sub__" if " - " in lab else "Quaternion.__add__", fn, {"kind": lab})
    n = int(case.p["n"])
    r = "random_attitudes"
    for rep, shape in (("quaternion", (n, 4) if n > 1 else (4,)), ("rotmat", (n, 3, 3) if n > 1 else (3, 3))):
        out = call(lambda: random_attitudes(n, rep))
        if ctx.returned(out, route=r):
            x = as_real_array(ctx, out.value, shape, route=r, what="random attitudes")
            if x is not None:
                if rep == "quaternion":
                    unit_clause(ctx, r, x)
                else:
                    ctx.le("random matrices are proper rotations", max(rq.so3_defect(m) for m in x.reshape(-1, 3, 3)), 1e-12, route=r)
    from ahrs.common import orientation as O_
    for rr, fn in (("Quaternion(random=True)", lambda: np.asarray(ahrs.Quaternion().random(), float)), ("Quaternion(random=True)", lambda: np.asarray(O_.q_random(), float))):
        out = call(fn)
        if ctx.returned(out, clause="no-exception[random() / q_random()]", route=rr):
            x = as_real_array(ctx, out.value, (4,), route=rr, what="quaternion")
            if x is not None:
                unit_clause(ctx, rr, x)
    out = call(lambda: np.asarray(O_.q_random(size=n), float))
    if ctx.returned(out, clause="no-exception[q_random(size=)]", route="random_attitudes"):
        x = as_real_array(ctx, out.value, (n, 4) if n > 1 else out.value.shape, route="random_attitudes", what="random quaternions")
        if x is not None:
            unit_clause(ctx, "random_attitudes", x.reshape(-1, 4))
    out = call(lambda: np.asarray(ahrs.Quaternion(random=True)))
    if ctx.returned(out, route="Quaternion(random=True)"):
        x = as_real_array(ctx, out.value, (4,), route="Quaternion(random=True)", what="quaternion")
        if x is not None:
            unit_clause(ctx, "Quaternion(random=True)", x)
    out = call(lambda: np.asarray(ahrs.QuaternionArray(n)))
    if ctx.returned(out, route="QuaternionArray(int)"):
        x = as_real_array(ctx, out.value, (n, 4), route="QuaternionArray(int)", what="quaternion array")
        if x is not None:
            unit_clause(ctx, "QuaternionArray(int)", x)
    QA = ahrs.QuaternionArray(Q.copy())
    stored = np.array(np.asarray(QA), float)
    r = "QuaternionArray.rotate_by"
    out = call(lambda: QA.rotate_by(case.p["rq"].copy()))
    if ctx.returned(out, route=r):
        x = as_real_array(ctx, out.value, stored.shape, route=r, what="rotated array")
        if x is not None:
            unit_clause(ctx, r, x)
            rqn = case.p["rq"] / np.linalg.norm(case.p["rq"])
            ctx.le("rotate_by(q) rows = q * row", max(np.abs(x[i] - rq.qmul(rqn, stored[i])).max() for i in range(len(stored))), 1e-14, route=r)
    # the same operation on an array that was deliberately stored non-normalised (versors=False), also in place
    scales = 0.25 + 3.0 * np.abs(np.sin(np.arange(len(Q)) + Q[0, 0]))
    raw = stored * scales[:, None]
    rqn = case.p["rq"] / np.linalg.norm(case.p["rq"])
    for how in ("returned", "inplace"):
        def run():
            A = ahrs.QuaternionArray(raw.copy(), versors=False)
            if how == "returned":
                return A.rotate_by(case.p["rq"].copy())
            A.rotate_by(case.p["rq"].copy(), inplace=True)
            return np.array(A.array, float)
        out = call(run)
        if ctx.returned(out, clause="no-exception[versors=False, %s]" % how, route=r):
            x = as_real_array(ctx, out.value, stored.shape, route=r, what="rotated array")
            if x is not None:
                unit_clause(ctx, r, x)
                ctx.le("rotate_by(q) on a non-normalised array: rows = q * unit(row)", max(np.abs(x[i] - rq.qmul(rqn, stored[i])).max() for i in range(len(stored))), 1e-14,
                       {"how": how}, route=r)
    r = "QuaternionArray.average"
    w = case.p["weights"] if case.p["use_weights"] else None
    out = call(lambda: ahrs.QuaternionArray(Q.copy()).average(weights=None if w is None else w.copy()))
    if ctx.returned(out, route=r):
        a = as_real_array(ctx, out.value, (4,), route=r, what="average")
        if a is not None:
            ctx.ok("average dtype is float64", np.asarray(out.value).dtype == np.float64, {"dtype": str(np.asarray(out.value).dtype)}, route=r)
            unit_clause(ctx, r, a)
            if case.p["clustered"]:
                worst = max(rq.qang(stored[i], case.p["centre"]) for i in range(len(stored)))
                ctx.le("average of a cluster lies within the cluster", rq.qang(a, case.p["centre"]), 1.5 * worst + 1e-9,
                       {"avg": a, "centre": case.p["centre"], "cluster_radius": worst}, route=r)
    # degenerate sizes: one row (with and without a weight), a span selecting one row, two rows
    for lab, fn in (("N=1", lambda: ahrs.QuaternionArray(Q[:1].copy()).average()),
                    ("N=1, weight", lambda: ahrs.QuaternionArray(Q[:1].copy()).average(weights=np.array([float(case.p["weights"][0])]))),
                    ("span of one row, weight", lambda: ahrs.QuaternionArray(Q.copy()).average(span=(1, 2), weights=np.array([0.37]))),
                    ("N=2, weights", lambda: ahrs.QuaternionArray(Q[:2].copy()).average(weights=case.p["weights"][:2].copy()))):
        out = call(fn)
        if ctx.returned(out, clause="no-exception[%s]" % lab, route=r):
            a = as_real_array(ctx, out.value, (4,), route=r, what="average")
            if a is not None:
                unit_clause(ctx, r, a)
                if lab != "N=2, weights":
                    row = stored[0] if lab.startswith("N=1") else stored[1]
                    ctx.le("average of a single row is that row (up to sign)", min(np.abs(a - row).max(), np.abs(a + row).max()), 1e-12, {"case": lab, "avg": a, "row": row}, route=r)
    out = call(lambda: ahrs.QuaternionArray(Q.copy()).average(span=(0, max(2, len(Q) // 2))))
    if ctx.returned(out, route=r):
        a = as_real_array(ctx, out.value, (4,), route=r, what="average")
        if a is not None:
            unit_clause(ctx, r, a)


def bad_vector(kind, base, pos):
    b = base.copy()
    return {
        "zero4": lambda: np.zeros(4), "zero3": lambda: np.zeros(3), "complex": lambda: b.astype(complex) + 1j * np.roll(b, 1),
        "nan": lambda: np.where(np.arange(4) == pos, np.nan, b), "inf": lambda: np.where(np.arange(4) == pos, np.inf * (1 if pos % 2 else -1), b),
        "len2": lambda: b[:2], "len5": lambda: np.r_[b, 1.0], "len1": lambda: b[:1], "rank2": lambda: np.vstack([b, b]),
        "string": lambda: "1,0,0,0", "strlist": lambda: [1.0, "a", 2.0, 3.0], "bool": lambda: [True, False, True, True],
        "none_member": lambda: [1.0, None, 0.0, 0.0], "empty": lambda: np.array([]),
    }.get(kind)


def bad_array(kind, base, pos):
    b = base.copy()
    ok = np.array([1.0, 0, 0, 0])
    return {
        "complex": lambda: np.vstack([ok, b]).astype(complex) + 1j * np.vstack([np.zeros(4), np.roll(b, 1)]),
        "zero_row": lambda: np.vstack([ok, np.zeros(4), b]), "nan_row": lambda: np.vstack([b, np.where(np.arange(4) == pos, np.nan, b)]),
        "inf_row": lambda: np.vstack([np.where(np.arange(4) == pos, np.inf, b), b]), "rank1_for_array": lambda: b,
        "rank3": lambda: np.ones((2, 2, 4)), "cols5": lambda: np.ones((3, 5)), "cols2": lambda: np.ones((3, 2)),
        "string": lambda: "abc", "zero4": lambda: np.zeros((2, 4)), "zero3": lambda: np.zeros((1, 3)),
        "bool": lambda: [[True, False, True, True]], "strlist": lambda: [[1.0, "a", 2.0, 3.0]],
    }.get(kind)


NOT_LISTED = {"string", "strlist", "bool", "none_member", "complex"}   # not among the inputs the property lists: recorded only


def must_reject(ctx, r, fn, detail):
    out = call(fn)
    if detail.get("kind") in NOT_LISTED:
        ctx.note("%s given %s: %s (recorded, not judged)" % (r, detail["kind"], "accepted" if out.ok else out.exc_name))
        return True
    if out.ok:
        return ctx.ok("invalid input is rejected (not wrapped)", False, dict(detail, accepted=repr(out.value)[:120]), route=r)
    return ctx.ok("rejection is a ValueError or TypeError", isinstance(out.exc, REJECT),
                  dict(detail, exc="%s: %s" % (out.exc_name, str(out.exc)[:100]), where=out.where), route=r)


def check_reject_vec(case, ctx):
    import ahrs
    kind, base, pos = case.p["kind"], case.p["base"], int(case.p["pos"])
    mk = bad_vector(kind, base, pos)
    if mk is not None:
        must_reject(ctx, "reject/Quaternion", lambda: ahrs.Quaternion(mk()), {"kind": kind})
    mk2 = bad_array(kind, base, pos)
    if mk2 is not None:
        must_reject(ctx, "reject/QuaternionArray", lambda: ahrs.QuaternionArray(mk2()), {"kind": kind})
    # the quaternion route of the matrix constructor, one quaternion and a stack of them
    from ahrs.common.dcm import DCM
    if mk is not None and kind != "rank2":       # (a 2-D array is a stack of quaternions for this constructor)
        must_reject(ctx, "reject/DCM(q=)", lambda: DCM(q=mk()), {"kind": kind})
    if mk2 is not None and kind != "rank1_for_array":
        must_reject(ctx, "reject/DCM(q=stack)", lambda: DCM(q=mk2()), {"kind": kind})
        if kind == "zero_row":
            must_reject(ctx, "reject/DCM(q=stack)", lambda: DCM(q=np.zeros((1, 4))), {"kind": "one zero row"})


def bad_matrix(p):
    R, e, i, j, G = p["R"], p["eps"], int(p["i"]), int(p["j"]), p["G"]
    kind = p["kind"]
    if kind == "scaled":
        return R * (1.0 + e)
    if kind == "sheared":
        S = np.eye(3)
        S[i, (i + 1) % 3] = e
        return R @ S
    if kind == "complex_orthogonal":    # M M^T = I and det M = 1 over the complex numbers (hyperbolic 'rotation'): its real part is not a rotation
        t = abs(e) * 3.0 + 0.03
        Hc = np.eye(3, dtype=complex)
        Hc[i, i] = Hc[(i + 1) % 3, (i + 1) % 3] = np.cosh(t)
        Hc[i, (i + 1) % 3], Hc[(i + 1) % 3, i] = 1j * np.sinh(t), -1j * np.sinh(t)
        return R @ Hc
    if kind == "complex_tiny_imag":     # a rotation that carries imaginary parts: not a real matrix at all
        return R.astype(complex) + 1j * abs(e) * G
    if kind == "sheared_left":      # rows keep (almost) unit length, but two of them are no longer perpendicular
        S = np.eye(3)
        S[i, (i + 1) % 3] = e
        return S @ R
    if kind == "skewed_pair":       # two unit rows tilted towards each other by the angle e, third row untouched: unit rows, unit determinant to O(e^2)
        M = R.copy()
        a, b = M[i].copy(), M[(i + 1) % 3].copy()
        M[i] = np.cos(e) * a + np.sin(e) * b
        return M
    if kind == "reflected":
        D = np.eye(3)
        D[i, i] = -1.0
        return R @ D
    if kind == "negated":
        return -R
    if kind == "nan":
        M = R.copy()
        M[i, j] = np.nan
        return M
    if kind == "inf":
        M = R.copy()
        M[i, j] = np.inf
        return M
    if kind == "zeros":
        return np.zeros((3, 3))
    if kind == "2x2":
        return np.eye(2)
    if kind == "3x4":
        return np.ones((3, 4))
    if kind == "flat9":
        return R.ravel()
    if kind == "nonorth":
        return R + 0.05 * G
    if kind == "singular":
        M = R.copy()
        M[:, j] = M[:, (j + 1) % 3]
        return M
    if kind == "ones":
        return np.ones((3, 3))
    raise KeyError(kind)


METHODS = ["chiaverini", "hughes", "itzhack", "sarabandi", "shepperd"]


def check_reject_mat(case, ctx):
    import ahrs
    from ahrs.common.dcm import DCM
    M = bad_matrix(case.p)
    kind = case.p["kind"]
    if M.shape == (3, 3) and np.all(np.isfinite(M)) and not np.iscomplexobj(M):
        d = so3_dist(M)
        if d < 1e-4:
            ctx.note("generated matrix closer than 1e-4 to SO(3): not judged")
            return
    must_reject(ctx, "reject/DCM", lambda: DCM(M.copy()), {"kind": kind})
    must_reject(ctx, "reject/Quaternion(dcm=)", lambda: ahrs.Quaternion(dcm=M.copy()), {"kind": kind})
    # every value of the conversion-method option (the constructors take method=): which formula would have been used does not decide whether a
    # non-rotation is let in - one matrix, and a stack with the non-rotation at any position among rotations
    if M.shape == (3, 3) and not np.iscomplexobj(M) and M.dtype.kind == "f":
        meth = METHODS[int(abs(float(case.p["R"][0, 1])) * 1e6) % len(METHODS)]
        pos = int(abs(float(case.p["R"][1, 2])) * 1e6) % 3
        Rv = case.p["R"]
        stack = np.array([Rv, Rv.T, Rv @ Rv])
        stack[pos] = M
        must_reject(ctx, "reject/Quaternion(dcm=)", lambda: ahrs.Quaternion(dcm=M.copy(), method=meth), {"kind": kind + " [method=%s]" % meth})
        must_reject(ctx, "reject/QuaternionArray", lambda: ahrs.QuaternionArray(DCM=stack.copy(), method=meth), {"kind": kind + " [stack, method=%s, position %d]" % (meth, pos)})
        must_reject(ctx, "reject/QuaternionArray", lambda: ahrs.QuaternionArray(DCM=M.copy()[None], method=meth), {"kind": kind + " [one-matrix stack, method=%s]" % meth})
    # the same non-rotation as an object of the matrix class: array arithmetic on a valid DCM (2*R, -R, R + E) yields DCM-typed results that were
    # never validated - a constructor given one must judge the values, not the type
    if M.shape == (3, 3) and not np.iscomplexobj(M) and M.dtype.kind == "f":
        def typed():
            D = DCM(case.p["R"].copy())
            return D + (M - np.asarray(D))
        t_ = call(typed)
        if t_.ok and isinstance(t_.value, DCM) and np.array_equal(np.asarray(t_.value), M, equal_nan=True):
            must_reject(ctx, "reject/Quaternion(dcm=)", lambda: ahrs.Quaternion(dcm=typed()), {"kind": kind + " [DCM-typed]"})
            must_reject(ctx, "reject/DCM", lambda: DCM(typed()), {"kind": kind + " [DCM-typed]"})
            must_reject(ctx, "reject/QuaternionArray", lambda: ahrs.QuaternionArray(DCM=np.array([np.asarray(typed())])), {"kind": kind + " [one-matrix stack]"})


def check_accept_mat(case, ctx):
    import ahrs
    from ahrs.common.dcm import DCM
    M = case.p["R"] + case.p["noise"]
    if so3_dist(M) > 1e-12:
        ctx.note("perturbed matrix farther than 1e-12 from SO(3): not judged")
        return
    out = call(lambda: np.asarray(DCM(M.copy())))
    if ctx.returned(out, route="accept/DCM"):
        ctx.le("accepted matrix is stored unchanged", np.abs(np.asarray(out.value, float) - M).max(), 0.0, route="accept/DCM")
    out = call(lambda: np.asarray(ahrs.Quaternion(dcm=M.copy())))
    if ctx.returned(out, route="accept/Quaternion(dcm=)"):
        q = as_real_array(ctx, out.value, (4,), route="accept/Quaternion(dcm=)", what="quaternion")
        if q is not None:
            unit_clause(ctx, "accept/Quaternion(dcm=)", q)
            ctx.le("quaternion of an accepted matrix reproduces it", np.abs(rq.refR(q) - M).max(), 1e-11, route="accept/Quaternion(dcm=)")


def check(case, ctx):
    {"vec": check_vec, "dcm": check_dcm, "ops": check_ops, "reject_vec": check_reject_vec, "reject_mat": check_reject_mat,
     "accept_mat": check_accept_mat}[case.route](case, ctx)
