"""C12 - SLERP follows the shortest geodesic at constant speed; NaN gaps are filled along it.

Reference model = great-arc geometry on S^3 computed by the harness; history
checkers for slerp_nan (all interior NaN runs) and remove_jumps / q_correct
(all sign-flip patterns)."""
import itertools

import numpy as np

from .. import gens
from ..core import Case, call
from ..oracles import as_real_array
from ..ref import quat as rq

PROP = "C12"
LEVEL = "exploration"
SHARDS = {"quick": 2, "thorough": 16}
THOROUGH_DEPTH = 40      # thorough tier = this many times the base thorough budget (VERIF_DEPTH overrides)
ROUTES = ["quaternion.slerp", "orientation.slerp", "QuaternionArray.slerp_nan", "QuaternionArray.remove_jumps", "orientation.q_correct"]
PAIR_REGIONS = ["generic", "near", "antipodal", "orthogonal", "threshold", "sweep", "identical"]
REGIONS = {"pair:" + r: 60 for r in PAIR_REGIONS}
REGIONS.update({"nan:enumerated": 60, "nan:sampled": 30, "flips:enumerated": 60, "flips:sampled": 30, "flips:canonical": 20, "flips:special": 20})
PROBES = [("ahrs.common.quaternion", "slerp"), ("ahrs.common.orientation", "slerp"), ("ahrs.common.quaternion", "QuaternionArray.slerp_nan"),
          ("ahrs.common.quaternion", "QuaternionArray.remove_jumps"), ("ahrs.common.orientation", "q_correct"),
          ("ahrs.utils.core", "get_nan_intervals")]
REQUIRED_PROBES = ["quaternion.slerp", "orientation.slerp", "quaternion.QuaternionArray.slerp_nan",
                   "quaternion.QuaternionArray.remove_jumps", "orientation.q_correct", "core.get_nan_intervals"]
RULE = ("pair cases: endpoint pairs generic / nearly equal (1e-9..1e-1) / nearly antipodal / orthogonal in R^4 / dot within 1e-4 of the "
        "0.9995 LERP threshold / dot swept log-uniformly over 1-10^[-9,-0.3] / identical, with sorted weight vectors containing 0 and 1; "
        "nan cases: smooth trajectories of N<=10 rows with every interior NaN run (start, length) enumerated across shards, plus "
        "sampled multi-run patterns up to N=60; flips cases: every sign pattern of N<=8 rows (enumerated) and sampled patterns up to "
        "N=60, recordings resting in or leaving special attitudes (identity, exact half / quarter / third turns, components all +-1/2); every third pair case adds weights 1e-12..1e-3 from either end; non-trivial = endpoints differ / at least one NaN row / at least one flipped row")
ASSUMPTIONS = ["great-arc reference computed with sin-weights in the harness", "above dot 0.9995 the documented LERP branch may deviate "
               "from constant speed by Omega^3/20 (<= 1.6e-6 rad)", "NaN in the first/last row is outside 'interior runs': recorded only"]
DEFAULT_THRESHOLD = 0.9995
ULP = 5e-16


def traj(rng, n, step, start=None):
    q = [gens.unit(rng) if start is None else np.array(start, float)]
    for _ in range(n - 1):
        w = rng.standard_normal(3) * step
        q.append(rq.qnormalize(rq.qmul(q[-1], rq.qexp_pure(w / 2))))
    return np.array(q)


def generate(rng, tier, shard, nshards):
    n = gens.budget(700, tier, nshards)
    for i in range(n):
        reg = PAIR_REGIONS[i % len(PAIR_REGIONS)]
        p = gens.unit(rng)
        if reg == "generic":
            q = gens.unit(rng)
        elif reg == "near":
            q = rq.qnormalize(p + gens.unit(rng) * gens.logu(rng, 1e-9, 1e-1))
        elif reg == "antipodal":
            q = rq.qnormalize(-p + gens.unit(rng) * gens.logu(rng, 1e-9, 1e-1))
        elif reg == "identical":
            q = p.copy() * float(rng.choice([-1, 1]))
        else:
            o = gens.unit(rng)
            o = rq.qnormalize(o - p * (p @ o))
            if reg == "orthogonal":
                c = 0.0 if i % 2 else float(rng.uniform(-1e-12, 1e-12))
            elif reg == "threshold":
                c = DEFAULT_THRESHOLD + float(rng.uniform(-1e-4, 1e-4))
            else:
                c = 1.0 - gens.logu(rng, 1e-9, 0.5)
            q = (c * p + np.sqrt(max(0.0, 1 - c * c)) * o) * float(rng.choice([-1, 1]))
            if reg == "orthogonal" and i % 4 == 1:      # inner product EXACTLY 0.0: identity vs an exact half-turn, two basis quaternions, (1,1,0,0)/sqrt2 vs (1,-1,0,0)/sqrt2
                E = np.array([[1, 0, 0, 0], [0, 1, 0, 0], [0, 0, 1, 0], [0, 0, 0, 1], [1, 1, 0, 0], [1, -1, 0, 0], [0, 0, 1, 1], [0, 0, 1, -1], [1, 1, 1, 1], [1, -1, 1, -1],
                              [1, 1, -1, -1], [1, -1, -1, 1]], float)
                while True:
                    a_, b_ = E[int(rng.integers(len(E)))], E[int(rng.integers(len(E)))]
                    if float(a_ @ b_) == 0.0:
                        break
                p, q = a_ / np.linalg.norm(a_) * float(rng.choice([-1, 1])), b_ / np.linalg.norm(b_) * float(rng.choice([-1, 1]))
        t = np.sort(np.r_[0.0, rng.uniform(0, 1, int(rng.integers(1, 8))), 1.0])
        if i % 3 == 0:      # weights next to (not at) the ends: 1e-12..1e-3 from 0 and from 1
            t = np.sort(np.r_[t, gens.logu(rng, 1e-12, 1e-3), 1.0 - gens.logu(rng, 1e-12, 1e-3), 1.0 - gens.logu(rng, 1e-7, 1e-4)])
        yield Case("pair", "pair:" + reg, p=p, q=q, t=t)
    # NaN runs: enumerate (N, start, length) and deal them round-robin to shards
    combos = [(N, a, L) for N in range(3, 11) for a in range(1, N - 1) for L in range(1, N - 1 - a + 1)]
    reps = 1 if tier == "quick" else gens.reps(4, tier)
    k = 0
    for rep in range(reps):
        for (N, a, L) in combos:
            k += 1
            if k % nshards != shard:
                continue
            T = traj(rng, N, gens.logu(rng, 1e-3, 0.3))
            mask = np.zeros(N, bool)
            mask[a:a + L] = True
            yield Case("nan", "nan:enumerated", T=T, mask=mask, flips=np.ones(N), inplace=bool(k % 2))
    for i in range(gens.budget(80, tier, nshards)):
        N = int(rng.integers(6, 61))
        T = traj(rng, N, gens.logu(rng, 1e-3, 0.3))
        mask = np.zeros(N, bool)
        for _ in range(int(rng.integers(1, 4))):
            a = int(rng.integers(1, N - 1))
            mask[a:min(N - 1, a + int(rng.integers(1, 6)))] = True
        flips = np.where(rng.random(N) < (0.2 if i % 2 else 0.0), -1.0, 1.0)
        yield Case("nan", "nan:sampled", T=T, mask=mask, flips=flips, inplace=bool(i % 2), partial=bool(i % 3 == 0))
    pats = [(N, bits) for N in range(2, 9) for bits in itertools.product([1.0, -1.0], repeat=N)]
    k = 0
    for (N, bits) in pats:
        k += 1
        if tier == "quick" and N == 8 and k % 4:
            continue
        if k % nshards != shard:
            continue
        yield Case("flips", "flips:enumerated", T=traj(rng, N, gens.logu(rng, 1e-3, 0.3)), flips=np.array(bits))
    # recordings delivered in a canonical form (every row multiplied by the sign of one of its components, usually w >= 0) while the rotation passes
    # the point where that component changes sign: a flip pattern tied to the trajectory, with no row "looking" flipped
    for i in range(gens.budget(40, tier, nshards)):
        N = int(rng.integers(12, 80))
        T = sweep(rng, N)
        c = 0 if i % 2 == 0 else int(rng.integers(1, 4))
        fl = np.where(T[:, c] < 0, -1.0, 1.0)
        if fl[0] < 0:
            T, fl = -T, fl       # (keep the first row as delivered)
        yield Case("flips", "flips:canonical", T=T, flips=fl)
    # recordings that start at (or rest in) a special attitude - identity, exact half / quarter / third turns about the axes and the body diagonals
    # (components exactly 0, exactly equal, all +-1/2), a tiny angle, an angle next to pi: a sensor at rest there, or turning slowly away from it
    for i in range(gens.budget(60, tier, nshards)):
        N = int(rng.integers(3, 24))
        reg_ = gens.UQ_REGIONS[i % len(gens.UQ_REGIONS)] if i % 3 else "octahedral"
        T = traj(rng, N, 0.0 if i % 2 == 0 else gens.logu(rng, 1e-6, 0.3), start=gens.unit_quat(rng, reg_))
        fl = np.where(rng.random(N) < rng.uniform(0.1, 0.6), -1.0, 1.0)
        if not (fl < 0).any():
            fl[int(rng.integers(1, N))] = -1.0
        yield Case("flips", "flips:special", T=T, flips=fl)
    for i in range(gens.budget(80, tier, nshards)):
        N = int(rng.integers(9, 61))
        yield Case("flips", "flips:sampled", T=traj(rng, N, gens.logu(rng, 1e-3, 0.3)), flips=np.where(rng.random(N) < rng.uniform(0.05, 0.6), -1.0, 1.0))


def sweep(rng, n):
    """a steady turn about a fixed axis through more than half a turn (a turn-table sweep), seen from an arbitrary fixed frame"""
    ax = gens.axis(rng)
    th = np.linspace(float(rng.uniform(0.05, 0.6)), float(rng.uniform(2 * np.pi - 0.6, 2 * np.pi - 0.05)), n)
    left = gens.unit(rng) if rng.random() < 0.5 else np.array([1.0, 0, 0, 0])
    return np.array([rq.qnormalize(rq.qmul(left, np.r_[np.cos(t / 2), ax * np.sin(t / 2)])) for t in th])


def nontrivial(case):
    if case.route == "pair":
        return not np.array_equal(np.abs(case.p["p"]), np.abs(case.p["q"]))
    if case.route == "nan":
        return bool(case.p["mask"].any())
    return bool((case.p["flips"] < 0).any())


def ref_slerp(p, q, t):
    """Shortest great-arc interpolation (reference)."""
    d = float(p @ q)
    qe = q if d >= 0 else -q
    # angle between unit 4-vectors, accurate for small and large angles
    om = 2.0 * np.arctan2(np.linalg.norm(p - qe), np.linalg.norm(p + qe))
    if om < 1e-12:
        return np.tile(p, (len(t), 1)), qe, om
    s = np.sin(om)
    return (np.sin((1 - t) * om) / s)[:, None] * p + (np.sin(t * om) / s)[:, None] * qe, qe, om


def angle4(a, b):
    return 2.0 * np.arctan2(np.linalg.norm(a - b, axis=-1), np.linalg.norm(a + b, axis=-1))


def judge_slerp(ctx, r, res, p, q, t, thr=None):
    x = as_real_array(ctx, res, (len(t), 4), route=r, what="interpolants")
    if x is None:
        return None
    ref, qe, om = ref_slerp(p, q, t)
    dot = abs(float(p @ q))
    ctx.le("interpolants are unit quaternions", np.abs(np.linalg.norm(x, axis=1) - 1).max(), 1e-12, route=r)
    ctx.le("starts at the first endpoint", np.abs(x[0] - p).max(), 1e-14, route=r)
    end_err = np.abs(x[-1] - qe).max()
    if dot < 1e-9:   # equidistant antipodes: either end is 'the nearer one'
        end_err = min(end_err, np.abs(x[-1] + qe).max())
        ref_alt = ref_slerp(p, -q, t)[0]
    ctx.le("ends at the second endpoint or its nearer antipode", end_err, 1e-12, {"end": x[-1], "expected": qe}, route=r)
    lerp_allow = (om ** 3) / 20.0 if dot > (DEFAULT_THRESHOLD if thr is None else thr) - 1e-9 else 0.0
    ang = angle4(x, p[None])
    ctx.le("angle from the first endpoint = weight x total angle", np.abs(ang - t * om).max(), 1e-12 + lerp_allow,
           {"omega": om, "dot": dot, "t": t, "angles": ang}, route=r)
    ctx.ok("angle advances monotonically with the weight", bool(np.all(np.diff(ang) >= -1e-13)), route=r)
    if om > 1e-6:
        B = np.c_[p, qe]
        proj = B @ np.linalg.lstsq(B, x.T, rcond=None)[0]
        ctx.le("interpolants lie in the plane of the endpoints", np.abs(proj.T - x).max(), 1e-12, route=r)
        dev = np.abs(x - ref).max(axis=1)
        if dot < 1e-9:
            dev = np.minimum(dev, np.abs(x - ref_alt).max(axis=1))
        ctx.le("interpolants equal the great-arc reference", dev.max(), 1e-12 + lerp_allow, route=r)
    return x


def check_pair(case, ctx):
    import ahrs.common.quaternion as Q
    import ahrs.common.orientation as O
    p, q, t = case.p["p"], case.p["q"], case.p["t"]
    for r, fn in (("quaternion.slerp", Q.slerp), ("orientation.slerp", O.slerp)):
        out = call(lambda: fn(p.copy(), q.copy(), t.copy()))
        if not ctx.returned(out, route=r):
            continue
        x = judge_slerp(ctx, r, out.value, p, q, t)
        if x is None:
            continue
        dot = abs(float(p @ q))
        for nm, pp, qq in (("q -> -q", p, -q), ("p -> -p", -p, q), ("both", -p, -q)):
            o2 = call(lambda: fn(pp.copy(), qq.copy(), t.copy()))
            if ctx.returned(o2, route=r):
                y = np.asarray(o2.value, float)
                if y.shape == x.shape and dot > 1e-9:
                    d = np.minimum(np.abs(y - x).max(axis=1), np.abs(y + x).max(axis=1)).max()
                    ctx.le("negating an endpoint does not change the path (as rotations)", d, 1e-12, {"which": nm}, route=r)
    # the documented threshold option (where the linear shortcut takes over): the path must stay the great arc to the accuracy that threshold implies
    thr = float([0.9, 0.99, 0.999999, 0.95][int(abs(p[0]) * 1e6) % 4])
    if abs(float(p @ q)) < 1.0 - 1e-9:
        for r, fn in (("quaternion.slerp", Q.slerp), ("orientation.slerp", O.slerp)):
            out = call(lambda: fn(p.copy(), q.copy(), t.copy(), threshold=thr))
            if ctx.returned(out, clause="no-exception[threshold=]", route=r):
                judge_slerp(ctx, r, out.value, p, q, t, thr=thr)
    # an endpoint typed in whole numbers (the identity as [1, 0, 0, 0], a half turn as [0, 1, 0, 0]) as an int list / int array, either position
    E_ = [np.array([1, 0, 0, 0]), np.array([0, 1, 0, 0]), np.array([0, 0, -1, 0]), np.array([-1, 0, 0, 0])][int(abs(q[1]) * 1e6) % 4]
    if abs(float(E_ @ q)) > 1e-6:
        for r, fn in (("quaternion.slerp", Q.slerp), ("orientation.slerp", O.slerp)):
            ref_a, ref_b = call(lambda: np.asarray(fn(E_.astype(float), q.copy(), t.copy()), float)), call(lambda: np.asarray(fn(q.copy(), E_.astype(float), t.copy()), float))
            for lab, mk in (("int list", lambda: E_.tolist()), ("int array", lambda: E_.astype(np.int64))):
                if lab == "int list" and r == "orientation.slerp":
                    continue        # (orientation.slerp indexes its arguments as arrays: it takes no lists at all, float or int)
                oa, ob = call(lambda: np.asarray(fn(mk(), q.copy(), t.copy()), float)), call(lambda: np.asarray(fn(q.copy(), mk(), t.copy()), float))
                for first, o_, ref_ in ((True, oa, ref_a), (False, ob, ref_b)):
                    if ref_.ok and ctx.returned(o_, clause="no-exception[whole-number endpoint typed as int]", route=r):
                        same = o_.value.shape == ref_.value.shape and float(np.abs(o_.value - ref_.value).max()) <= 1e-15
                        ctx.ok("a whole-number endpoint typed as int gives the path of the same endpoint typed as float", bool(same), {"form": lab, "endpoint": "first" if first else "second", "E": E_}, route=r)
    if case.region != "pair:orthogonal":
        out = call(lambda: (Q.slerp(p.tolist(), q.tolist(), t.tolist()), Q.slerp(p.copy(), q.copy(), t.copy())))
        if ctx.returned(out, route="quaternion.slerp"):
            ctx.ok("list inputs give the same result as arrays", np.array_equal(np.asarray(out.value[0]), np.asarray(out.value[1])), route="quaternion.slerp")


def check_nan(case, ctx):
    import ahrs
    T, mask, flips, inplace = case.p["T"], case.p["mask"], case.p["flips"], bool(case.p["inplace"])
    r = "QuaternionArray.slerp_nan"
    Tf = T * flips[:, None]
    signed = bool((flips < 0).any())

    def run():
        QA = ahrs.QuaternionArray(Tf.copy())
        if case.p.get("partial"):       # a missing sample may have lost only some of its components (single-channel drop-out)
            for j in np.where(mask)[0]:
                cols = [[0, 1, 2, 3], [1], [2, 3], [0], [3], [1, 2, 3]][int(j) % 6]
                QA[j, cols] = np.nan
                QA.array[j, cols] = np.nan
        else:
            QA[mask] = np.nan
            QA.array[mask] = np.nan
        ret = QA.slerp_nan(inplace=inplace)
        return ret, np.array(QA.array, float)
    out = call(run)
    if not ctx.returned(out, route=r):
        return
    ret, stored = out.value
    if inplace:
        ctx.ok("inplace=True returns None", ret is None, route=r)
        res = stored
    else:
        ctx.ok("inplace=False leaves the NaN rows in the object", bool(np.isnan(stored[mask]).any(axis=1).all()) if mask.any() else True, route=r)
        res = ret
    x = as_real_array(ctx, res, T.shape, route=r, what="filled array")
    if x is None:
        return
    valid = ~mask
    if signed:
        d = np.minimum(np.abs(x[valid] - Tf[valid]).max(axis=1), np.abs(x[valid] + Tf[valid]).max(axis=1)).max()
        ctx.le("valid rows represent the same rotations", d, ULP, route=r)
    else:
        # (the constructor re-normalises the rows: one ulp)
        ctx.le("valid rows are unchanged", np.abs(x[valid] - Tf[valid]).max(), ULP, route=r)
    idx = np.where(mask)[0]
    if len(idx) == 0:
        return
    for run_ in np.split(idx, np.where(np.diff(idx) > 1)[0] + 1):
        a, b = run_[0] - 1, run_[-1] + 1
        ts = np.arange(1, len(run_) + 1) / (len(run_) + 1.0)
        ref, qe, om = ref_slerp(x[a], x[b], ts)
        lerp_allow = (om ** 3) / 20.0 if abs(float(x[a] @ x[b])) > DEFAULT_THRESHOLD - 1e-9 else 0.0
        got = x[run_]
        ctx.le("filled rows are the great-arc interpolants between the neighbouring valid rows",
               np.abs(got - ref).max(), 1e-12 + lerp_allow, {"run": [int(run_[0]), int(run_[-1])], "N": len(T)}, route=r)
        ctx.le("filled rows advance by equal angles", np.abs(angle4(got, x[a][None]) - ts * om).max(), 1e-12 + lerp_allow, route=r)
        ctx.le("filled rows are unit quaternions", np.abs(np.linalg.norm(got, axis=1) - 1).max(), 1e-12, route=r)


def check_flips(case, ctx):
    import ahrs
    from ahrs.common import orientation as O
    T, flips = case.p["T"], case.p["flips"]
    Tf = T * flips[:, None]

    def rj():
        QA = ahrs.QuaternionArray(Tf.copy())
        QA.remove_jumps()
        return np.array(QA.array, float), np.array(np.asarray(QA), float)
    for r, fn in (("QuaternionArray.remove_jumps", rj), ("orientation.q_correct", lambda: (np.asarray(O.q_correct(Tf.copy()), float),) * 2)):
        out = call(fn)
        if not ctx.returned(out, route=r):
            continue
        A, view = out.value
        x = as_real_array(ctx, A, T.shape, route=r, what="corrected array")
        if x is None:
            continue
        if len(x) > 1:
            ctx.le("no consecutive jump (|q[i+1]-q[i]| <= 1)", np.linalg.norm(np.diff(x, axis=0), axis=1).max(), 1.0, route=r)
        d = np.minimum(np.abs(x - Tf).max(axis=1), np.abs(x + Tf).max(axis=1)).max()
        ctx.le("rows represent the same rotations (equal up to sign)", d, ULP, route=r)
        ctx.le("first row keeps its sign", np.abs(x[0] - Tf[0]).max(), ULP, route=r)
        ctx.ok("array view and .array agree", np.array_equal(view, x), route=r)


def check_flips_inplace(case, ctx):
    """same law for a container filled after construction: QuaternionArray() then from_DCM(R) (in place by default); the signs
    are whatever the matrix conversion produced"""
    import ahrs
    T = case.p["T"]
    R = np.array([rq.refR(t / np.linalg.norm(t)) for t in T])
    r = "QuaternionArray.remove_jumps"

    def run():
        QA = ahrs.QuaternionArray()
        QA.from_DCM(R.copy())
        before = np.array(QA.array, float)
        QA.remove_jumps()
        return before, np.array(QA.array, float)
    out = call(run)
    if not ctx.returned(out, clause="no-exception[filled in place by from_DCM]", route=r):
        return
    before, x = out.value
    if as_real_array(ctx, x, T.shape, route=r, what="corrected array") is None:
        return
    ctx.note("in-place container: %d sign jumps before" % int((np.linalg.norm(np.diff(before, axis=0), axis=1) > 1).sum()) if len(before) > 1 else "in-place container: single row")
    if len(x) > 1:
        ctx.le("no consecutive jump (|q[i+1]-q[i]| <= 1) [container filled in place]", np.linalg.norm(np.diff(x, axis=0), axis=1).max(), 1.0,
               {"jumps_before": np.flatnonzero(np.linalg.norm(np.diff(before, axis=0), axis=1) > 1), "N": len(x)}, route=r)
    ctx.le("rows represent the same rotations (equal up to sign) [container filled in place]", np.minimum(np.abs(x - before).max(axis=1), np.abs(x + before).max(axis=1)).max(), ULP, route=r)
    ctx.le("first row keeps its sign [container filled in place]", np.abs(x[0] - before[0]).max(), ULP, route=r)


def check(case, ctx):
    if case.route == "flips":
        check_flips_inplace(case, ctx)
    {"pair": check_pair, "nan": check_nan, "flips": check_flips}[case.route](case, ctx)
