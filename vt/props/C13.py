"""C13 - a dropped-out sensor sample never corrupts a recursive filter (fault enumeration).

Fault injection + twin-history checker: every history is run twice through the
real filter, clean and with rows of acc / mag / gyr set to exactly zero.  The
faulted run must either refuse with ValueError or stay finite and unit and,
K samples after the last fault, be back within the filter's tolerance of its
clean twin.  For 12-sample fault windows the space (sensor subset, start,
length <= 3) is enumerated exhaustively; long bursts are sampled."""
import itertools

import numpy as np

from .. import gens
from ..core import Case, call
from ..ref import quat as rq

PROP = "C13"
LEVEL = "fault_enumeration"
SHARDS = {"quick": 16, "thorough": 16}
THOROUGH_DEPTH = 6      # thorough tier = this many times the base thorough budget (VERIF_DEPTH overrides)
TIME_CAP = {"quick": 900, "thorough": 2400}
DEG = np.pi / 180.0
WINDOW = 12          # faults are enumerated inside the first WINDOW samples
DEAD_RECKONERS = ("Madgwick", "Mahony", "AQUA")
K_BURST = 1500       # recovery samples after a long burst (EKF freezes its attitude during an accelerometer dropout: up to ~8 deg to recover from)
TOL_UNIT = 1e-9

# name -> (sensors, builder(F, g, a, m, dip_deg) -> instance with .Q, K: recovery samples after an interior dropout,
#          K_first: recovery samples when the first sample is lost (the filter has to converge from an unknown attitude:
#          C05's bound), recovery tolerance, carried-state attributes)
FILTERS = {
    "Madgwick/IMU": ("ga", lambda F, g, a, m, d: F.Madgwick(g, a, gain=0.5), 300, 3000, 3.0 * DEG, []),
    "Madgwick/MARG": ("gam", lambda F, g, a, m, d: F.Madgwick(g, a, m, gain=0.5), 300, 3000, 3.0 * DEG, []),
    "Madgwick/MARG/default": ("gam", lambda F, g, a, m, d: F.Madgwick(g, a, m), 300, 45000, 1.0 * DEG, []),
    "Mahony/IMU": ("ga", lambda F, g, a, m, d: F.Mahony(g, a), 300, 15000, 1.0 * DEG, ["b"]),
    "Mahony/MARG": ("gam", lambda F, g, a, m, d: F.Mahony(g, a, m), 300, 20000, 2.0 * DEG, ["b"]),
    "EKF/IMU": ("ga", lambda F, g, a, m, d: F.EKF(g, a), 300, 3000, 1.0 * DEG, ["P"]),
    "EKF/MARG": ("gam", lambda F, g, a, m, d: F.EKF(g, a, m, magnetic_ref=d), 300, 6000, 2.0 * DEG, ["P"]),
    "UKF": ("ga", lambda F, g, a, m, d: F.UKF(g, a), 300, 6000, 1.0 * DEG, ["P"]),
    "AQUA/IMU": ("ga", lambda F, g, a, m, d: F.AQUA(a, gyr=g), 300, 4000, 1.0 * DEG, []),
    "AQUA/MARG": ("gam", lambda F, g, a, m, d: F.AQUA(a, m, g), 300, 5000, 1.0 * DEG, []),
    "AQUA/MARG/adaptive": ("gam", lambda F, g, a, m, d: F.AQUA(a, m, g, adaptive=True), 300, 5000, 1.0 * DEG, ["alpha"]),
    "Fourati": ("gam", lambda F, g, a, m, d: F.Fourati(g, a, m, magnetic_dip=d), 300, 300, None, []),
    "ROLEQ": ("gam", lambda F, g, a, m, d: F.ROLEQ(g, a, m, magnetic_ref=d), 300, 3000, 2.0 * DEG, []),
    # option variants: a sensor given zero weight must not make the filter more fragile when that sensor drops out (recovery is
    # not judged: with one sensor ignored the attitude is only partly observable)
    "ROLEQ/weights=[1,0]": ("gam", lambda F, g, a, m, d: F.ROLEQ(g, a, m, magnetic_ref=d, weights=np.array([1.0, 0.0])), 300, 3000, None, []),
    "ROLEQ/weights=[0,1]": ("gam", lambda F, g, a, m, d: F.ROLEQ(g, a, m, magnetic_ref=d, weights=np.array([0.0, 1.0])), 300, 3000, None, []),
    "ROLEQ/ENU": ("gam", lambda F, g, a, m, d: F.ROLEQ(g, a, m, magnetic_ref=d, frame="ENU"), 300, 3000, None, []),
    "EKF/MARG/ENU": ("gam", lambda F, g, a, m, d: F.EKF(g, a, m, magnetic_ref=d, frame="ENU"), 300, 6000, None, ["P"]),
    "Mahony/MARG/k_I=0": ("gam", lambda F, g, a, m, d: F.Mahony(g, a, m, k_I=0.0), 300, 20000, None, ["b"]),
    "Madgwick/IMU/default": ("ga", lambda F, g, a, m, d: F.Madgwick(g, a), 300, 3000, None, []),
    "FKF": ("gam", lambda F, g, a, m, d: F.FKF(g, a, m), 300, 10000, 2.0 * DEG, ["Pk"]),
    "Complementary/IMU": ("ga", lambda F, g, a, m, d: F.Complementary(g, a), 300, 600, 1.0 * DEG, []),
    "Complementary/MARG": ("gam", lambda F, g, a, m, d: F.Complementary(g, a, m), 300, 600, 1.0 * DEG, []),
}
ROUTES = list(FILTERS)
REGIONS = {"window:interior": 2000, "window:first-sample": 200, "burst:long": 16, "burst:repeated": 16, "short": 60, "burst:turning": 4}
THOROUGH_QUOTA_MULT = 1
PROBES = [("ahrs.filters.madgwick", "Madgwick.updateIMU"), ("ahrs.filters.madgwick", "Madgwick.updateMARG"), ("ahrs.filters.mahony", "Mahony.updateIMU"),
          ("ahrs.filters.mahony", "Mahony.updateMARG"), ("ahrs.filters.ekf", "EKF.update"), ("ahrs.filters.ukf", "UKF.update"),
          ("ahrs.filters.aqua", "AQUA.updateIMU"), ("ahrs.filters.aqua", "AQUA.updateMARG"), ("ahrs.filters.fourati", "Fourati.update"),
          ("ahrs.filters.roleq", "ROLEQ.update"), ("ahrs.filters.fkf", "FKF.kalman_update"), ("ahrs.filters.complementary", "Complementary.am_estimation")]
REQUIRED_PROBES = ["madgwick.Madgwick.updateIMU", "madgwick.Madgwick.updateMARG", "mahony.Mahony.updateIMU", "mahony.Mahony.updateMARG", "ekf.EKF.update",
                   "aqua.AQUA.updateIMU", "aqua.AQUA.updateMARG", "fourati.Fourati.update", "roleq.ROLEQ.update"]
RULE = ("fault space per filter: every non-empty subset of its sensors x every start 0..11 x every length 1..3 inside a 12-sample window (exhaustive, "
        "coverage.exhaustive_window = true), followed by a recovery tail; plus sampled single bursts of 1..50 samples and repeated bursts in "
        "600-sample histories; histories are slowly rotating consistent trajectories (rates up to 0.3 rad/s, gyro bias up to 0.01 rad/s and noise so that dead reckoning "
        "drifts), plus 0.5-1.5 s outages of every field sensor while the body turns at up to 1.5 rad/s for the filters that dead-reckon (Madgwick, Mahony, AQUA: "
        "right after the outage they are within the gyro drift, 0.02 rad/s x duration + 2 deg, of the fault-free run); non-trivial = at least one accelerometer or magnetometer row is zeroed")
ASSUMPTIONS = ["refusal = ValueError raised by the constructor/step; any other exception type is a violation",
               "recovery bound K and tolerance per filter calibrated on the pinned tree (x3 in K, x5 in tolerance)",
               "zeroed gyroscope rows are part of the fault space; filters treat a null rate as 'no new data' and return the previous attitude"]


def trajectory(rng, n, dt=0.01, wmax=0.3):
    """Consistent slowly rotating sensor: body rates w, attitude q (conv: measurement = R(q)^T ref), gyro with bias and noise."""
    dip = float(rng.uniform(-70, 70))
    d = np.radians(dip)
    mref = np.array([np.cos(d), 0.0, np.sin(d)])
    q = gens.unit(rng)
    w = gens.axis(rng) * (gens.logu(rng, 0.02, 0.3) if wmax <= 0.3 else float(rng.uniform(0.5, 1.0)) * wmax)
    bias = gens.axis(rng) * gens.logu(rng, 1e-4, 1e-2)
    G_, A, M = [], [], []
    for t in range(n):
        w = w + rng.standard_normal(3) * 0.01
        w *= min(1.0, wmax / np.linalg.norm(w))
        q = rq.qnormalize(rq.qmul(q, rq.qexp_pure(w * dt / 2)))
        R = rq.refR(q)
        A.append(R.T @ np.array([0, 0, 9.81]) + rng.standard_normal(3) * 0.01)
        M.append(R.T @ mref * 50.0 + rng.standard_normal(3) * 0.05)
        G_.append(w + bias + rng.standard_normal(3) * 1e-3)
    return np.array(G_), np.array(A), np.array(M), dip


def fault_space(sensors):
    subs = [s for k in range(1, len(sensors) + 1) for s in itertools.combinations(sensors, k)]
    return [("".join(s), st, ln) for s in subs for ln in (1, 2, 3) for st in range(0, WINDOW - ln + 1)]


def generate(rng, tier, shard, nshards):
    k = 0
    for name, (sensors, _, K, K1, tol, _) in FILTERS.items():
        for (sub, st, ln) in fault_space(sensors):
            k += 1
            if k % nshards != shard:
                continue
            n = WINDOW + (K1 if (st == 0 and sub != "g") else K) + 20
            g, a, m, dip = trajectory(rng, n)
            mask = np.zeros(n, bool)
            mask[st:st + ln] = True
            yield Case(name, "window:first-sample" if st == 0 else "window:interior", g=g, a=a, m=m, dip=dip, sensors=sub, mask=mask)
    # the shortest recordings: one, two or three samples, the dropout on the first (or every) sample - the constructor's initial attitude comes
    # from sample 0 and nothing else may be there to correct it
    for name, (sensors, _, K, K1, tol, _) in FILTERS.items():
        fs = sensors.replace("g", "")
        subs = ["".join(s) for kk in range(1, len(fs) + 1) for s in itertools.combinations(fs, kk)]
        for sub in subs:
            for n, upto in ((1, 1), (2, 1), (2, 2), (3, 2)):
                k += 1
                if k % nshards != shard:
                    continue
                g, a, m, dip = trajectory(rng, n)
                mask = np.zeros(n, bool)
                mask[:upto] = True
                yield Case(name, "short", g=g, a=a, m=m, dip=dip, sensors=sub, mask=mask)
    for name, (sensors, _, K, K1, tol, _) in FILTERS.items():
        reps = 2 if tier == "quick" else gens.reps(12, tier)
        sensors = sensors.replace("g", "")      # long bursts: accelerometer / magnetometer only (a null rate for 0.5 s is a 15 deg attitude error, not a dropout)
        for i in range(reps):
            k += 1
            if k % nshards != shard:
                continue
            n = 600 + K_BURST
            g, a, m, dip = trajectory(rng, n)
            mask = np.zeros(n, bool)
            repeated = bool(i % 2)
            for _ in range(int(rng.integers(2, 5)) if repeated else 1):
                st = int(rng.integers(1, 540))
                mask[st:st + int(rng.integers(1, 51))] = True
            mask[600:] = False
            subs = [s for kk in range(1, len(sensors) + 1) for s in itertools.combinations(sensors, kk)]
            sub = "".join(subs[int(rng.integers(len(subs)))])
            yield Case(name, "burst:repeated" if repeated else "burst:long", g=g, a=a, m=m, dip=dip, sensors=sub, mask=mask)

    # the body keeps turning (up to 1.5 rad/s) while every field sensor is out for 0.5 - 1.5 s: the filters that dead-reckon through an outage
    # (C08 names them) come out of it where the gyroscope took them, so the way back to the fault-free run is as short as after any other burst
    for name, (sensors, _, K, K1, tol, _) in FILTERS.items():
        if not name.startswith(DEAD_RECKONERS) or tol is None:
            continue
        for i in range(1 if tier == "quick" else gens.reps(4, tier)):
            k += 1
            if k % nshards != shard:
                continue
            n = 450 + K_BURST
            g, a, m, dip = trajectory(rng, n, wmax=float(rng.uniform(0.8, 1.5)))
            mask = np.zeros(n, bool)
            st = int(rng.integers(200, 300))
            mask[st:st + int(rng.integers(50, 151))] = True
            yield Case(name, "burst:turning", g=g, a=a, m=m, dip=dip, sensors=sensors.replace("g", ""), mask=mask)


def nontrivial(case):
    return ("a" in case.p["sensors"] or "m" in case.p["sensors"]) and bool(case.p["mask"].any())


def run(name, g, a, m, dip):
    import ahrs
    sensors, build, K, K1, tol, state = FILTERS[name]
    inst = build(ahrs.filters, g.copy(), a.copy(), None if "m" not in sensors else m.copy(), dip)
    Q = np.asarray(inst.Q)
    st = {}
    for attr in state:
        st[attr] = np.asarray(getattr(inst, attr), dtype=float)
    return Q, st


def diff(name, qf, qc):
    """Distance between the faulted and the clean estimate: rotation angle for MARG filters, angle between the two
    estimated gravity directions for accelerometer-only variants (their heading is unobservable and legitimately drifts)."""
    if "m" in FILTERS[name][0]:
        return rq.qang(qf, qc)
    z = np.array([0.0, 0.0, 1.0])
    Rf, Rc = rq.refR(rq.qnormalize(qf)), rq.refR(rq.qnormalize(qc))
    if name.startswith("AQUA"):
        return rq.vangle(Rf @ z, Rc @ z)
    return rq.vangle(Rf.T @ z, Rc.T @ z)


# C13 name -> (registry name of vt.filt, constructor kwargs) for the filters that can be streamed sample by sample
STREAM = {
    "Madgwick/IMU": ("Madgwick/IMU", {"gain": 0.5}), "Madgwick/MARG": ("Madgwick/MARG", {"gain": 0.5}), "Madgwick/MARG/default": ("Madgwick/MARG", {}),
    "Mahony/IMU": ("Mahony/IMU", {}), "Mahony/MARG": ("Mahony/MARG", {}), "EKF/IMU": ("EKF/IMU/NED", {}), "EKF/MARG": ("EKF/MARG/NED", "dip"),
    "AQUA/IMU": ("AQUA/IMU", {}), "AQUA/MARG": ("AQUA/MARG", {}), "AQUA/MARG/adaptive": ("AQUA/MARG/adaptive", {}),
    "Fourati": ("Fourati", "dip"), "ROLEQ": ("ROLEQ/NED", "dip"), "UKF": ("UKF", {}),
}


def stream_with_refusals(name, q0, g, a, m, dip, feed_raw=False):
    """Feed the samples one at a time; a sample refused with ValueError is skipped (the previous attitude is kept), exactly
    what a caller of update() would do.  Returns (emitted attitudes, indices of refused samples)."""
    from .. import filt
    regname, kw = STREAM[name]
    cfg = filt.registry()[regname]
    kw = filt.resolve_kw(cfg, dip, None) if kw == "dip" else dict(kw)
    inst = cfg.new(**kw)
    Q, refused = [np.array(q0, float)], []
    prev = Q[-1].copy()
    for t in range(1, len(g)):
        try:
            # feed_raw: the very object update() returned is handed back as the next a-priori attitude (q = f.update(q, ...)), not a plain-array copy of it
            prev = cfg.step(inst, prev if feed_raw else Q[-1].copy(), g[t].copy(), a[t].copy(), m[t].copy())
            q = np.array(prev, dtype=float)
        except ValueError:
            refused.append(t)
            q = Q[-1].copy()
        Q.append(q)
    return np.array(Q), refused


def fkf_by_hand(q0, g, a, m):
    """FKF has no update(): a live stream calls its public per-sample methods the way its own batch loop does.  A sample one of them refuses with
    ValueError is skipped (the previous attitude is kept).  Returns (attitudes, refused sample indices)."""
    import ahrs
    f = ahrs.filters.FKF()
    Sg = f.sigma_g * np.identity(3)
    Sam = np.diag([f.sigma_a] * 3 + [f.sigma_m] * 3)
    Q, refused = [np.array(q0, float)], []
    for t in range(1, len(g)):
        q_ = Q[-1]
        try:
            Phi = np.identity(4) + 0.5 * f.Dt * f.Omega4(g[t].copy())
            Xi = np.array([[q_[1], q_[2], q_[3]], [-q_[0], -q_[3], -q_[2]], [q_[2], -q_[0], -q_[1]], [-q_[2], q_[1], -q_[0]]])
            Se = (f.Dt / 2.0) ** 2 * Xi @ Sg @ Xi.T
            qy, J = f.measurement_quaternion_acc_mag(q_.copy(), a[t].copy(), m[t].copy())
            q, f.Pk = f.kalman_update(q_.copy(), qy, f.Pk, Phi, Se, J @ Sam @ J.T)
            q = np.asarray(q, float)
            Q.append(q / np.linalg.norm(q))
        except ValueError:
            refused.append(t)
            Q.append(q_.copy())
    return np.array(Q), refused


def check_fkf_by_hand(case, ctx, g, a, m, gf, af, mf, mask, what):
    from ahrs.common.orientation import ecompass
    q0 = call(lambda: np.asarray(ecompass(a[0], m[0], frame="NED", representation="quaternion"), float))
    if not q0.ok:
        return
    out = call(fkf_by_hand, q0.value, gf, af, mf)
    reg = case.region + ":by-hand"
    if not out.ok:
        ctx.ok("FKF streamed by hand through its public per-sample methods refuses a dropout with ValueError or survives it", False,
               {"exc": "%s: %s" % (out.exc_name, str(out.exc)[:120]), "where": out.where, "fault": what}, region=reg + ":" + out.exc_name)
        return
    Q, refused = out.value
    fin = np.all(np.isfinite(Q), axis=1)
    if ctx.ok("FKF streamed by hand never yields NaN/inf at or after a dropped-out sample", bool(fin.all()), {"first_bad_sample": int(np.argmin(fin)), "fault": what, "refused": refused[:6]}, region=reg):
        ctx.ok("FKF streamed by hand: samples outside the dropout are not refused", all(mask[t] for t in refused), {"refused": refused[:8], "fault": what}, region=reg)


def check_stream(case, ctx, name, g, a, m, gf, af, mf, mask, what, q0):
    """Streaming twin of the dropout case (interior faults only): every value a caller receives from update() is observed."""
    p = case.p
    r = name
    feed_raw = bool(int(case.digest(), 16) % 2)
    out = call(stream_with_refusals, name, q0, gf, af, mf, p["dip"], feed_raw)
    if not out.ok:
        ctx.ok("streamed dropout is refused with ValueError or survived", False, {"exc": "%s: %s" % (out.exc_name, str(out.exc)[:120]), "where": out.where, "fault": what},
               region=case.region + ":stream:" + out.exc_name)
        return
    ctx.ok("streamed dropout is refused with ValueError or survived", True)
    Q, refused = out.value
    fin = np.all(np.isfinite(Q), axis=1) if Q.ndim == 2 and Q.dtype.kind == "f" else np.zeros(1, bool)
    if not ctx.ok("update() never returns NaN/inf at or after a dropped-out sample", bool(fin.all()),
                  {"first_bad_sample": int(np.argmin(fin)), "fault": what, "refused_samples": refused[:6]}, region=case.region + ":stream"):
        return
    d = np.abs(np.linalg.norm(Q, axis=1) - 1.0)
    ctx.le("update() always returns a unit quaternion", float(d.max()), TOL_UNIT, {"first_bad_sample": int(np.argmax(d > TOL_UNIT)), "fault": what}, region=case.region + ":stream")
    ctx.ok("samples outside the dropout are not refused", all(mask[t] for t in refused), {"refused": refused[:8], "fault": what}, region=case.region + ":stream")


def check(case, ctx):
    p = case.p
    name = case.route
    sensors, build, K, K1, tol, state = FILTERS[name]
    g, a, m, mask = p["g"], p["a"], p["m"], p["mask"]
    gf, af, mf = g.copy(), a.copy(), m.copy()
    if "g" in p["sensors"]:
        gf[mask] = 0.0
    if "a" in p["sensors"]:
        af[mask] = 0.0
    if "m" in p["sensors"]:
        mf[mask] = 0.0
    stream_it = name in STREAM and not mask[0]
    what = "zeroed %s rows %d..%d%s" % (p["sensors"], int(np.argmax(mask)), int(len(mask) - 1 - np.argmax(mask[::-1])), " (first sample)" if mask[0] else "")
    np.random.seed(12345)
    if int(case.digest(), 16) % 4 == 0:
        # the same faulted recording as raw integer counts (int64 arrays; gyroscope in units of 0.05 rad/s): validity only - refused with ValueError
        # or survived with finite unit quaternions, never another exception
        gi, ai, mi = np.round(gf * 20).astype(np.int64), np.round(af).astype(np.int64), np.round(mf).astype(np.int64)
        ai[mask & ("a" in p["sensors"])] = 0
        oi = call(run, name, gi, ai, mi, p["dip"])
        if not oi.ok:
            ctx.ok("an integer-typed recording with a dropout is refused with ValueError or survived", isinstance(oi.exc, ValueError),
                   {"exc": "%s: %s" % (oi.exc_name, str(oi.exc)[:120]), "where": oi.where, "fault": what}, region=case.region + ":int:" + oi.exc_name)
        else:
            Qi = np.asarray(oi.value[0])
            okq = Qi.dtype != object and Qi.shape == (len(g), 4) and bool(np.all(np.isfinite(np.asarray(Qi, float))))
            ctx.ok("an integer-typed recording with a dropout yields finite quaternions, one per sample", okq, {"fault": what}, region=case.region + ":int")
            if okq:
                ctx.le("an integer-typed recording with a dropout yields unit quaternions", float(np.abs(np.linalg.norm(np.asarray(Qi, float), axis=1) - 1).max()), TOL_UNIT, {"fault": what},
                       region=case.region + ":int")
    if name == "FKF" and not mask[0] and ("a" in p["sensors"] or "m" in p["sensors"]):
        check_fkf_by_hand(case, ctx, g, a, m, gf, af, mf, mask, what)
    out = call(run, name, gf, af, mf, p["dip"])
    if stream_it:
        q0 = call(lambda: np.asarray(run(name, g[:2], a[:2], m[:2], p["dip"])[0][0], float))
        if q0.ok and np.all(np.isfinite(q0.value)):
            check_stream(case, ctx, name, g, a, m, gf, af, mf, mask, what, q0.value)
    if not out.ok:
        if isinstance(out.exc, ValueError):
            ctx.ok("dropout is refused with ValueError or survived", True)
            ctx.note("refused with ValueError")
            return
        ctx.ok("dropout is refused with ValueError or survived", False, {"exc": "%s: %s" % (out.exc_name, str(out.exc)[:120]), "where": out.where, "fault": what},
               region=case.region + ":" + out.exc_name)
        return
    ctx.ok("dropout is refused with ValueError or survived", True)
    np.random.seed(12345)
    clean = call(run, name, g, a, m, p["dip"])         # fault-free twin (only needed when the faulted run was not refused)
    Qc = np.asarray(clean.value[0], float) if clean.ok else None
    if Qc is None or not (Qc.shape == (len(g), 4) and np.all(np.isfinite(Qc))):
        ctx.note("fault-free twin is not a valid run (%s; C03's business): recovery not judged" % (clean.exc_name or "non-finite"))
        Qc = None
    if Qc is not None and name.startswith("ROLEQ") and not mask[0]:
        # ROLEQ's first attitude is an OLEQ estimate from a random start (21 iterations: not always converged, a recorded C04 finding); when the
        # fault-free run itself still depends on that start at the time of the fault there is no "normal" estimate to return to
        np.random.seed(54321)
        clean2 = call(run, name, g, a, m, p["dip"])
        k0 = int(np.argmax(mask))
        if clean2.ok and diff(name, np.asarray(clean2.value[0], float)[k0], Qc[k0]) > (tol or 0.0):
            ctx.note("fault-free ROLEQ run still depends on OLEQ's random start when the fault begins: recovery not judged")
            Qc = None
    Q, st = out.value
    Q = np.asarray(Q)
    if not ctx.ok("one real quaternion per sample", Q.dtype != object and not np.iscomplexobj(Q) and Q.shape == (len(g), 4), {"shape": list(Q.shape), "fault": what}):
        return
    Q = np.array(Q, float)
    fin = np.all(np.isfinite(Q), axis=1)
    if not ctx.ok("no NaN/inf is emitted at or after the dropout", bool(fin.all()),
                  {"first_bad_sample": int(np.argmin(fin)), "fault": what, "bad_rows": int((~fin).sum())}):
        return
    d = np.abs(np.linalg.norm(Q, axis=1) - 1.0)
    ctx.le("every emitted quaternion has unit norm", float(d.max()), TOL_UNIT, {"first_bad_sample": int(np.argmax(d > TOL_UNIT)), "fault": what})
    for attr, val in st.items():
        ctx.ok("carried filter state stays finite", bool(np.all(np.isfinite(val))), {"attribute": attr, "fault": what})
    last = int(len(mask) - 1 - np.argmax(mask[::-1]))
    long_recovery = bool(mask[0]) and p["sensors"] != "g"      # sample 0 of acc/mag lost: the initial attitude is unknown
    Kc = K1 if long_recovery else (K_BURST if case.region.startswith("burst") else K)
    t0 = last + 1 + Kc
    if tol is None:
        ctx.note("recovery not judged for this configuration (Fourati: recovery time unbounded by design; option variants: validity only)")
    elif Qc is not None and t0 < len(Q):
        err = np.array([diff(name, Q[t], Qc[t]) for t in range(t0, len(Q))])
        ctx.le("K samples after the dropout the estimates are back within tolerance of the fault-free run", float(err.max()), tol,
               {"K": Kc, "tol_deg": float(np.degrees(tol)), "worst_deg": float(np.degrees(err.max())), "fault": what,
                "divergence_right_after_fault_deg": float(np.degrees(diff(name, Q[min(last + 1, len(Q) - 1)], Qc[min(last + 1, len(Q) - 1)])))})

    if case.region == "burst:turning" and Qc is not None and last + 1 < len(Q):
        # Madgwick, Mahony and AQUA skip the correction and keep the prediction: through an outage of every field sensor they follow the gyroscope,
        # so right after it they differ from the fault-free run by the gyroscope's own drift only (bias <= 0.01 rad/s, noise), however far the body turned
        dur = int(mask.sum()) * 0.01
        budget = 0.02 * dur + np.radians(2.0)          # (observed on the pinned tree: at most a third of this)
        ctx.le("right after an outage of every field sensor a dead-reckoning filter is where the gyroscope took it (within the gyro drift of the fault-free run)",
               float(diff(name, Q[last + 1], Qc[last + 1])), budget, {"outage_s": dur, "budget_deg": float(np.degrees(budget)), "fault": what,
                                                                     "turned_deg_during_outage": float(np.degrees(np.linalg.norm(g[mask], axis=1).sum() * 0.01))})


def static_evidence():
    sp = {name: len(fault_space(v[0])) for name, v in FILTERS.items()}
    return {"exhaustive": True, "exhaustive_scope": "every (sensor subset, start, length<=3) fault inside the 12-sample window, per filter configuration; long bursts are sampled", "fault_space_per_filter": sp, "fault_space_total": int(sum(sp.values()))}
