"""C14 - WMM output equals the spherical-harmonic synthesis of the shipped coefficients.

Reference-model monitor against vt/ref/wmm.py (independent synthesis that
shares only the .COF files with the library)."""
import os

import numpy as np

from .. import gens
from ..core import Case, call
from ..ref import wmm as refwmm

PROP = "C14"
LEVEL = "exploration"
SHARDS = {"quick": 4, "thorough": 16}
THOROUGH_DEPTH = 15      # thorough tier = this many times the base thorough budget (VERIF_DEPTH overrides)
ROUTES = ["magnetic_field/reused-object", "magnetic_field/fresh-object", "constructor"]
LAT_REGIONS = ["lat:generic", "lat:equator", "lat:pole", "lat:55", "lat:near-pole"]
REGIONS = {r: 40 for r in LAT_REGIONS}
REGIONS.update({"date:epoch-boundary": 60, "lon:0/180": 40})
PROBES = [("ahrs.utils.wmm", "WMM.magnetic_field"), ("ahrs.utils.wmm", "WMM.reset_coefficients"), ("ahrs.utils.wmm", "WMM.load_coefficients"),
          ("ahrs.utils.wmm", "WMM.denormalize_coefficients"), ("ahrs.utils.wmm", "geodetic2spherical"), ("ahrs.utils.wmm", "WMM.reset_date")]
REQUIRED_PROBES = ["wmm.WMM.magnetic_field", "wmm.WMM.reset_coefficients", "wmm.WMM.load_coefficients", "wmm.WMM.denormalize_coefficients", "wmm.geodetic2spherical"]
RULE = ("cases = (latitude, longitude, height, date): latitude generic / exactly 0 / exactly +-90 / +-55 and its neighbourhood (grivation switch) / "
        "within 1e-9..1e-3 deg of a pole; longitude generic / 0 / +-180; height -1..850 km; date on the 0.1-year grid 2015.0..2030.0 with both sides of "
        "every epoch boundary (2019.9|2020.0, 2024.9|2025.0) and integer years over-represented; each case is evaluated on a long-lived object, a "
        "fresh object and through the constructor; non-trivial = all")
ASSUMPTIONS = ["reference synthesis vt/ref/wmm.py: Schmidt factors from factorials, Legendre derivatives via numpy.polynomial.legendre, WGS84 geodetic->geocentric, "
               "secular variation at round(date,1)-epoch, model by date (<2020.0 WMM2015, <2025.0 WMM2020, else WMM2025)",
               "tolerance 1e-6 nT (observed 5e-11), 5e-3 nT (1e-7 of the field) strictly between 89 deg and the pole where the documented P/cos(lat') form cancels",
               "coefficient files read from the tree under test (ahrs/utils/WMM20xx/WMM.COF)"]
TOL_NT = 1e-6
TOL_NEAR_POLE = 5e-3
_reused = {}


def cof_root():
    return os.path.join(os.environ.get("AHRS_TREE", "/repo"), "ahrs", "utils")


def draw_date(rng, boundary):
    """on the 0.1-year grid or (every other draw) anywhere in between; 'boundary' = at an epoch change or within a few hundredths of a year of it
    (the model valid at the date itself is the one to use, whatever the 0.1-year rounding of the secular term does)"""
    if boundary:
        if rng.random() < 0.5:
            return float(rng.choice([2015.0, 2015.1, 2019.9, 2020.0, 2020.1, 2024.9, 2025.0, 2025.1, 2029.9, 2030.0]))
        return float(rng.choice([2020.0, 2025.0])) + float(rng.choice([-0.06, -0.051, -0.049, -0.04, -0.01, -1e-6, 1e-6, 0.01, 0.04, 0.049, 0.051, 0.06]))
    if rng.random() < 0.5:
        return round(float(rng.integers(20150, 20301)) / 10.0, 1)
    return float(rng.uniform(2015.0, 2030.0))


def generate(rng, tier, shard, nshards):
    n = gens.budget(520, tier, nshards)
    for i in range(n):
        lr = LAT_REGIONS[i % len(LAT_REGIONS)]
        lat = {"lat:generic": lambda: float(rng.uniform(-90, 90)), "lat:equator": lambda: 0.0, "lat:pole": lambda: float(rng.choice([-90.0, 90.0])),
               "lat:55": lambda: float(rng.choice([-1, 1])) * (55.0 + float(rng.choice([0.0, 1e-9, -1e-9, 0.5, -0.5]))),
               "lat:near-pole": lambda: float(rng.choice([-1, 1])) * (90.0 - gens.logu(rng, 1e-9, 1e-3))}[lr]()
        special_lon = (i // len(LAT_REGIONS)) % 3 == 0
        lon = float(rng.choice([0.0, 180.0, -180.0])) if special_lon else float(rng.uniform(-180, 180))
        boundary = (i // (3 * len(LAT_REGIONS))) % 2 == 0
        date = draw_date(rng, boundary)
        as_int = bool(date == int(date) and rng.random() < 0.5)
        yield Case("all", lr, lat=lat, lon=lon, h=float(rng.uniform(-1, 850)) if i % 4 else float(rng.choice([-1.0, 0.0, 850.0])), date=date, as_int=as_int,
                   tags=(["date:epoch-boundary"] if boundary else []) + (["lon:0/180"] if special_lon else []))


def take_apart(d, k):
    """the caller uses up a dict the library handed out: pops the entry it wanted, overwrites another, or empties it"""
    if k % 3 == 0:
        d.pop("epoch", None)
    elif k % 3 == 1:
        for key in list(d):
            d[key] = 1900.0 if isinstance(d[key], float) else "edited by the caller"
    else:
        d.clear()


def check(case, ctx):
    from ahrs.utils.wmm import WMM
    lat, lon, h, date = case.p["lat"], case.p["lon"], case.p["h"], case.p["date"]
    d_arg = int(date) if case.p["as_int"] else date
    ref, name = refwmm.field(lat, lon, h, date, cof_root())

    def judge(route, w):
        got = np.array([w.X, w.Y, w.Z], dtype=float)
        ctx.ok("components are finite real numbers", bool(np.all(np.isfinite(got))), {"XYZ": got}, route=route)
        # within a degree of a pole (but not exactly on it) the library divides by cos(lat'): it loses up to ~9 digits
        # (worst observed 2.3e-4 nT at 1e-6 deg from the pole against an 80-bit evaluation of the same synthesis)
        tol = TOL_NT if (abs(lat) <= 89.0 or abs(lat) == 90.0) else TOL_NEAR_POLE
        ctx.le("X, Y, Z equal the independent degree-12 synthesis (nT)", float(np.abs(got - ref).max()), tol,
               {"lat": lat, "lon": lon, "h_km": h, "date": date, "got": got, "ref": ref}, route=route)
        ctx.ok("coefficient file of the epoch containing the date is used", str(w.wmm_filename).startswith(name), {"date": date, "file": w.wmm_filename, "expected": name}, route=route)
        acc = call(lambda: (dict(w.magnetic_elements), np.array(w.geodetic_vector, float)))
        if ctx.returned(acc, clause="no-exception[magnetic_elements / geodetic_vector]", route=route):
            md, gv = acc.value
            ctx.le("magnetic_elements['X'/'Y'/'Z'] and geodetic_vector hold the components of this evaluation (nT)",
                   float(max(np.abs(np.array([md["X"], md["Y"], md["Z"]], float) - ref).max(), np.abs(gv - ref).max())), tol, {"dict": [md["X"], md["Y"], md["Z"]], "vector": gv, "ref": ref}, route=route)
    if "w" not in _reused:
        _reused["w"] = WMM()
    out = call(lambda: _reused["w"].magnetic_field(lat, lon, h, date=d_arg))
    if ctx.returned(out, route="magnetic_field/reused-object"):
        judge("magnetic_field/reused-object", _reused["w"])
        # a vertical profile: the same latitude and longitude again with other heights, then the very same query repeated
        for k, h2 in enumerate((h + 25.0, max(h - 1.0, -1.0), h)):
            o3 = call(lambda: _reused["w"].magnetic_field(lat, lon, h2, date=d_arg))
            if ctx.returned(o3, clause="no-exception[same place, another height]", route="magnetic_field/reused-object"):
                w = _reused["w"]
                got3 = np.array([w.X, w.Y, w.Z], dtype=float)
                ref3, _ = refwmm.field(lat, lon, h2, date, cof_root())
                tol3 = TOL_NT if (abs(lat) <= 89.0 or abs(lat) == 90.0) else TOL_NEAR_POLE
                ctx.le("same latitude / longitude, another height on a reused object: X, Y, Z are those of the new height (nT)", float(np.abs(got3 - ref3).max()), tol3,
                       {"lat": lat, "lon": lon, "h_km": h2, "previous_h_km": h, "got": got3, "ref": ref3}, route="magnetic_field/reused-object")
        # follow-up queries with date=None (keeps the date of the previous query; an omitted date would mean today): the values must be
        # those of that date at the new place, however many such queries follow each other
        for k in (1, 2, 3):
            lat2 = float(np.clip(lat + 7.3 * k * (-1) ** k, -88.9, 88.9))
            lon2 = float(((lon + 41.0 * k + 180.0) % 360.0) - 180.0)
            if k == 2:      # a reader in between: looking up the properties of a shipped coefficient file (any epoch) is not a query and changes nothing
                # (what the reader hands out is the caller's to keep or take apart: entries popped, overwritten, the dict emptied)
                rd_ = call(lambda: _reused["w"].get_properties(["WMM2015", "WMM2020", "WMM2025"][int(abs(lat) * 10) % 3] + "/WMM.COF"))
                if rd_.ok and isinstance(rd_.value, dict):
                    take_apart(rd_.value, int(abs(lon) * 10))
            o2 = call(lambda: _reused["w"].magnetic_field(lat2, lon2, h, date=None))
            if not ctx.returned(o2, clause="no-exception[date=None]", route="magnetic_field/reused-object"):
                _reused.pop("w", None)
                break
            w = _reused["w"]
            got = np.array([w.X, w.Y, w.Z], dtype=float)
            ref2, _ = refwmm.field(lat2, lon2, h, date, cof_root())
            ctx.le("query with date=None: X, Y, Z are those of the previous query's date at the new place (nT)", float(np.abs(got - ref2).max()), TOL_NT,
                   {"lat": lat2, "lon": lon2, "h_km": h, "date": date, "consecutive_dateless_queries": k, "got": got, "ref": ref2}, route="magnetic_field/reused-object")
    else:
        _reused.pop("w", None)

    def fresh():
        w = WMM()
        w.magnetic_field(lat, lon, h, date=d_arg)
        return w
    out = call(fresh)
    if ctx.returned(out, route="magnetic_field/fresh-object"):
        judge("magnetic_field/fresh-object", out.value)

    def fresh_enu():
        w = WMM(frame=gens.spell("ENU", int(abs(lat) * 1e4)))       # frame names are compared case-insensitively
        w.magnetic_field(lat, lon, h, date=d_arg)
        return np.array([w.X, w.Y, w.Z], dtype=float)
    out = call(fresh_enu)
    if ctx.returned(out, clause="no-exception[frame=ENU]", route="magnetic_field/fresh-object"):
        tol = TOL_NT if (abs(lat) <= 89.0 or abs(lat) == 90.0) else TOL_NEAR_POLE
        ctx.le("frame='ENU': (X, Y, Z) = (east, north, up) of the same synthesis (nT)", float(np.abs(out.value - np.array([ref[1], ref[0], -ref[2]])).max()), tol,
               {"lat": lat, "lon": lon, "got": out.value, "ref_ned": ref}, route="magnetic_field/fresh-object")
    # whole-number coordinates typed as int: the same place must give the same field
    li, lo_, hi_ = int(np.clip(round(lat), -89, 89)), int(round(lon)), int(round(h))

    def at(la, lo, hh):
        w = WMM()
        w.magnetic_field(la, lo, hh, date=d_arg)
        return np.array([w.X, w.Y, w.Z], dtype=float)
    o_f, o_i = call(at, float(li), float(lo_), float(hi_)), call(at, li, lo_, hi_)
    if o_f.ok and ctx.returned(o_i, clause="no-exception[int coordinates]", route="magnetic_field/fresh-object"):
        ctx.le("whole-number latitude / longitude / height typed as int give the same field as floats (nT)", float(np.abs(o_f.value - o_i.value).max()), 1e-9,
               {"lat": li, "lon": lo_, "h": hi_, "float": o_f.value, "int": o_i.value}, route="magnetic_field/fresh-object")
    o_c = call(lambda: WMM(date=d_arg, latitude=li, longitude=lo_, height=hi_))
    if o_f.ok and o_c.ok and o_c.value.X is not None:
        ctx.le("constructor with int coordinates gives the same field as the method with floats (nT)", float(np.abs(o_f.value - np.array([o_c.value.X, o_c.value.Y, o_c.value.Z], float)).max()), 1e-9,
               {"lat": li, "lon": lo_, "h": hi_}, route="constructor")
    # the other documented spellings of a date: a whole year typed as int, a datetime.datetime for a datetime.date
    import datetime as _dt
    alt = None
    if isinstance(d_arg, float) and d_arg == int(d_arg):
        alt = ("whole year typed as int", int(d_arg))
    elif isinstance(d_arg, _dt.date) and not isinstance(d_arg, _dt.datetime):
        alt = ("datetime.datetime of the same day", _dt.datetime(d_arg.year, d_arg.month, d_arg.day, 13, 30))
    if alt is not None:
        def with_date(dd):
            w = WMM()
            w.magnetic_field(lat, lon, h, date=dd)
            return np.array([w.X, w.Y, w.Z], dtype=float)
        o_a, o_b = call(with_date, d_arg), call(with_date, alt[1])
        if o_a.ok and ctx.returned(o_b, clause="no-exception[%s]" % alt[0], route="magnetic_field/fresh-object"):
            ctx.le("the same date in its other accepted spelling gives the same field (nT)", float(np.abs(o_a.value - o_b.value).max()), 1e-9, {"spelling": alt[0], "date": str(d_arg)},
                   route="magnetic_field/fresh-object")
    out = call(lambda: WMM(date=d_arg, latitude=lat, longitude=lon, height=h))
    if ctx.returned(out, route="constructor"):
        w = out.value
        if w.X is None:
            ctx.ok("constructor computes the field", False, {"lat": lat, "lon": lon, "elements": "None"}, route="constructor", region="ctor:lat-or-lon-zero" if (lat == 0 or lon == 0) else None)
        else:
            judge("constructor", w)


def extra_evidence():
    return {}
