"""C15 - WMM answers depend only on (date, place, frame), not on call path or history.

History checker: random query sequences on one object (constructor, method with
explicit date, method with date=None meaning 'the date already set') are
compared answer by answer with the sequential specification - a pure function
of (date, place, frame) evaluated by the independent synthesis and by a fresh
object - plus element-consistency monitors on every answer."""
import datetime
import os

import numpy as np

from .. import gens
from ..core import Case, call
from ..ref import wmm as refwmm

PROP = "C15"
LEVEL = "exploration"
SHARDS = {"quick": 4, "thorough": 16}
THOROUGH_DEPTH = 20      # thorough tier = this many times the base thorough budget (VERIF_DEPTH overrides)
ROUTES = ["history/NED", "history/ENU", "constructor-vs-method", "elements", "longitude+-180", "poles", "equator/prime-meridian", "threads"]
REGIONS = {"history": 80, "entry:on-grid": 30, "entry:off-grid": 30, "entry:datetime": 20, "place:special": 40}
PROBES = [("ahrs.utils.wmm", "WMM.magnetic_field"), ("ahrs.utils.wmm", "WMM.reset_coefficients"), ("ahrs.utils.wmm", "WMM.load_coefficients"),
          ("ahrs.utils.wmm", "WMM.denormalize_coefficients"), ("ahrs.utils.wmm", "WMM.reset_date")]
REQUIRED_PROBES = ["wmm.WMM.magnetic_field", "wmm.WMM.reset_coefficients", "wmm.WMM.denormalize_coefficients", "wmm.WMM.reset_date"]
RULE = ("history cases: 3..12 queries on one object (first through the constructor or on a default object), each a place (generic / equator / prime "
        "meridian / poles / +-180 / +-55) with an explicit date (on or off the 0.1-year grid, any of the three epochs) or date=None; entry cases: "
        "the same (date, place) through constructor and method for on-grid, off-grid and datetime.date dates; place cases: poles, +-180, latitude 0, "
        "longitude 0; both frames; non-trivial = history has at least 3 queries / entry case")
ASSUMPTIONS = ["sequential specification: the answer is a pure function of (date, place, frame); date=None means the date the object already holds",
               "reference values from vt/ref/wmm.py (1e-6 nT; 5e-3 nT strictly between 89 deg and a pole)",
               "H, F, I, D are recomputed from the reported X, Y, Z with the defining formulas in the frame they are reported in; GV = D -/+ longitude beyond +-55 deg"]
ELEMS = ["X", "Y", "Z", "H", "F", "I", "D", "GV"]


def cof_root():
    return os.path.join(os.environ.get("AHRS_TREE", "/repo"), "ahrs", "utils")


def place(rng, kind=None):
    kind = kind or str(rng.choice(["generic", "generic", "equator", "meridian", "pole", "180", "55", "origin"]))
    lat, lon = float(rng.uniform(-89, 89)), float(rng.uniform(-179, 179))
    if kind == "equator":
        lat = 0.0
    elif kind == "meridian":
        lon = 0.0
    elif kind == "origin":
        lat, lon = 0.0, 0.0
    elif kind == "pole":
        lat = float(rng.choice([-90.0, 90.0]))
    elif kind == "180":
        lon = float(rng.choice([-180.0, 180.0]))
    elif kind == "55":
        lat = float(rng.choice([-1, 1])) * (55.0 + float(rng.choice([0.0, 0.25, -0.25])))
    return lat, lon, float(rng.uniform(-1, 850))


def edge_day(rng):
    y = int(rng.integers(2015, 2030)) if rng.random() < 0.7 else int(rng.choice([2019, 2024, 2029, 2020, 2025, 2016, 2028]))
    m, d = [(1, 1), (12, 31), (12, 30), (1, 2), (12, 31)][int(rng.integers(5))]
    return [y, m, d]


def draw_date(rng, off_grid):
    if off_grid:
        return float(rng.uniform(2015.02, 2029.98))
    return round(float(rng.integers(20150, 20300)) / 10.0, 1)


def generate(rng, tier, shard, nshards):
    n = gens.budget(160, tier, nshards)
    for i in range(n):
        k = int(rng.integers(3, 13))
        qs = []
        for j in range(k):
            lat, lon, h = place(rng)
            kind = "ctor" if (j == 0 and i % 2 == 0) else ("none" if (j > 0 and rng.random() < 0.3) else "explicit")
            if kind == "explicit" and j > 0 and rng.random() < 0.15:
                kind = "omitted"        # the date argument left out altogether (not the same as date=None)
            elif kind == "explicit" and j > 0 and rng.random() < 0.15:
                kind = "calendar"       # a calendar day (datetime.date) at the edge of a year: 1 January, 30 / 31 December (leap years too), up to the last day served
            elif kind == "explicit" and j > 0 and rng.random() < 0.15:
                kind = "own-date"       # the object's own `date` attribute (a datetime.date) handed back as the date of the next query
            if j > 0 and rng.random() < 0.2:      # the same station again at another height (a vertical profile), or the same point again
                lat, lon = qs[-1]["lat"], qs[-1]["lon"]
                h = qs[-1]["h"] if rng.random() < 0.25 else float(rng.uniform(-1, 850))
            dd = draw_date(rng, bool(rng.random() < 0.4))
            if j > 0 and rng.random() < 0.15:
                dd = qs[-1]["date"]               # ... and / or the same date again
            if rng.random() < 0.15:     # decimal years just below a tenth / an epoch boundary
                dd = float(rng.choice([2019.999, 2024.999, 2017.549, 2022.348, 2021.048, 2026.951, 2019.949, 2015.051]))
            qs.append({"kind": kind, "lat": lat, "lon": lon, "h": h, "date": dd})
            if kind == "calendar":
                qs[-1]["day"] = edge_day(rng)
            if j > 0 and i % 3 == 2 and rng.random() < 0.25:
                # the public attribute `frame` re-assigned between two queries (a method query has no frame argument): the next answer is in that frame
                qs[-1]["pre"] = ["set_frame", gens.spell(str(rng.choice(["NED", "ENU"])), int(rng.integers(5)))]
                qs[-1]["kind"] = "explicit"
            if j > 0 and i % 3 == 0 and rng.random() < 0.3:
                # a reader called by hand between two queries: the properties of one of the shipped coefficient files (any epoch) are looked up; the next
                # query - also one that keeps the object's date - must not care
                qs[-1]["pre"] = ["get_properties", str(rng.choice(["WMM2015", "WMM2020", "WMM2025"]))]
            if j > 0 and i % 3 == 1 and rng.random() < 0.35:
                # the object's public state methods called by hand between two queries (with a date of any epoch): the next dated query must not care
                qs[-1]["pre"] = [str(rng.choice(["reset_date", "reset_coefficients", "load_coefficients"])), draw_date(rng, bool(rng.random() < 0.5))]
                qs[-1]["kind"] = "explicit"
        yield Case("history", "history", queries=qs, frame=gens.spell("NED" if i % 3 else "ENU", i // 3))
    for i in range(gens.budget(90, tier, nshards)):
        reg = ["entry:on-grid", "entry:off-grid", "entry:datetime"][i % 3]
        lat, lon, h = place(rng)
        if reg == "entry:datetime":
            d = datetime.date(int(rng.integers(2015, 2030)), int(rng.integers(1, 13)), int(rng.integers(1, 29)))
            date = [d.year, d.month, d.day] if i % 2 else edge_day(rng)
        else:
            date = draw_date(rng, reg == "entry:off-grid")
            if reg == "entry:off-grid" and i % 6 == 1:   # just below an epoch / tenth boundary
                date = float(rng.choice([2019.999, 2024.999, 2021.048, 2021.951, 2019.949]))
        yield Case("entry", reg, lat=lat, lon=lon, h=h, date=date, frame="NED" if i % 2 else "ENU")
    for i in range(gens.budget(60, tier, nshards)):
        kind = ["pole", "180", "equator", "meridian", "origin"][i % 5]
        lat, lon, h = place(rng, kind)
        yield Case("place", "place:special", kind=kind, lat=lat, lon=lon, h=h, date=draw_date(rng, False), frame="NED" if i % 2 else "ENU")


def nontrivial(case):
    return True


def elements(w):
    return {k: (None if getattr(w, k) is None else float(getattr(w, k))) for k in ELEMS}


def tol_for(lat):
    return 1e-6 if (abs(lat) <= 89.0 or abs(lat) == 90.0) else 5e-3


def expected_xyz(lat, lon, h, date_dec, frame):
    ref, _ = refwmm.field(lat, lon, h, date_dec, cof_root())
    return ref if frame.upper() == "NED" else np.array([ref[1], ref[0], -ref[2]])


def judge_elements(ctx, el, lat, lon, route="elements"):
    if any(v is None for v in el.values()):
        ctx.ok("all eight elements are computed", False, {"elements": el}, route=route)
        return False
    v = np.array([el[k] for k in ELEMS])
    if not ctx.ok("all eight elements are finite", bool(np.all(np.isfinite(v))), {"elements": el}, route=route):
        return False
    X, Y, Z = el["X"], el["Y"], el["Z"]
    H = float(np.hypot(X, Y))
    F = float(np.sqrt(X * X + Y * Y + Z * Z))
    ctx.le("H = sqrt(X^2 + Y^2)", abs(el["H"] - H), 1e-9 * max(1.0, H), route=route)
    ctx.le("F = sqrt(X^2 + Y^2 + Z^2)", abs(el["F"] - F), 1e-9 * max(1.0, F), route=route)
    ctx.le("I = atan2(Z, H) in degrees", abs(el["I"] - np.degrees(np.arctan2(Z, H))), 1e-9, route=route)
    dD = (el["D"] - np.degrees(np.arctan2(Y, X)) + 180.0) % 360.0 - 180.0
    ctx.le("D = atan2(Y, X) in degrees", abs(dD), 1e-9 if H > 1e-3 else 360.0, route=route)
    gv = el["D"] - lon if lat > 55.0 else (el["D"] + lon if lat < -55.0 else el["D"])
    ctx.le("GV = D -/+ longitude beyond +-55 deg latitude, else D", abs(el["GV"] - gv), 1e-9, {"lat": lat, "lon": lon, "D": el["D"], "GV": el["GV"]}, route=route)
    return True


def check_history(case, ctx):
    from ahrs.utils.wmm import WMM
    qs, frame = case.p["queries"], case.p["frame"]
    route = "history/" + frame.upper()
    w = None
    cur_date = None
    log = []
    for j, q in enumerate(qs):
        lat, lon, h = q["lat"], q["lon"], q["h"]
        if q["kind"] == "ctor":
            out = call(lambda: WMM(date=q["date"], latitude=lat, longitude=lon, height=h, frame=frame))
            if not ctx.returned(out, route=route):
                return
            w = out.value
            cur_date = q["date"]
        else:
            if w is None:
                w = WMM(frame=frame)
                cur_date = None
            if q.get("pre") and w is not None and q["pre"][0] == "get_properties":
                fn_ = q["pre"][1] + "/WMM.COF"           # (package-relative, the form wmm_filename has)
                pre = call(lambda: w.get_properties(fn_))
                if not ctx.returned(pre, clause="no-exception[get_properties() called by hand]", route=route):
                    return
                if isinstance(pre.value, dict):          # what was handed out is the caller's: used up (entry popped / overwritten / dict emptied)
                    from .C14 import take_apart
                    take_apart(pre.value, len(log) + int(abs(q["lat"]) * 10))
                log.append(("get_properties", q["pre"][1]))
            elif q.get("pre") and w is not None and q["pre"][0] == "set_frame":
                w.frame = q["pre"][1]
                frame = q["pre"][1]
                log.append(("frame =", frame))
            elif q.get("pre") and w is not None:
                meth, d2 = q["pre"]
                pre = call(lambda: getattr(w, meth)(w.wmm_filename) if meth == "load_coefficients" else getattr(w, meth)(d2))
                if not ctx.returned(pre, clause="no-exception[%s() called by hand]" % meth, route=route):
                    return
                log.append((meth, d2))
                cur_date = None
            if q["kind"] == "none" and cur_date is None:
                q = dict(q, kind="explicit")
            if q["kind"] == "explicit":
                out = call(lambda: w.magnetic_field(lat, lon, h, date=q["date"]))
                cur_date = q["date"]
            elif q["kind"] in ("own-date", "calendar"):
                own = w.date if q["kind"] == "own-date" else datetime.date(*q["day"])

                def fresh_same_day():
                    f = WMM(frame=frame)
                    f.magnetic_field(lat, lon, h, date=own)
                    return np.array([f.X, f.Y, f.Z], float), float(f.date_dec)
                out = call(lambda: w.magnetic_field(lat, lon, h, date=own))
                fr = call(fresh_same_day)
                if out.ok and ctx.returned(fr, clause="no-exception[own date, fresh object]", route=route):
                    cur_date = fr.value[1]
                    ctx.le("a query dated with a calendar day (the object's own `date` attribute, or a day at the edge of a year) is answered as a fresh object answers for that day",
                           float(np.abs(np.array([w.X, w.Y, w.Z], float) - fr.value[0]).max()), 1e-9,
                           {"query_index": j, "history": log[-6:], "date": str(own), "date_dec_here": float(w.date_dec), "date_dec_fresh": fr.value[1]}, route=route)
            elif q["kind"] == "omitted":
                out = call(lambda: w.magnetic_field(lat, lon, h))

                def fresh_omitted():
                    f = WMM(frame=frame)
                    f.magnetic_field(lat, lon, h)
                    return np.array([f.X, f.Y, f.Z], float), float(f.date_dec)
                fr = call(fresh_omitted)
                if out.ok and ctx.returned(fr, clause="no-exception[date omitted, fresh object]", route=route):
                    cur_date = float(w.date_dec)
                    ctx.le("a query that leaves the date out is answered as the same call on a fresh object is (whatever this object was asked before)",
                           float(np.abs(np.array([w.X, w.Y, w.Z], float) - fr.value[0]).max()), 1e-9,
                           {"query_index": j, "history": log[-6:], "date_here": float(w.date_dec), "date_fresh": fr.value[1]}, route=route)
            else:
                out = call(lambda: w.magnetic_field(lat, lon, h, date=None))
            if not ctx.returned(out, route=route):
                return
        log.append((q["kind"], lat, lon, round(h, 1), cur_date))
        el = elements(w)
        acc = call(lambda: (dict(w.magnetic_elements), np.array(w.geodetic_vector, float)))
        if ctx.returned(acc, clause="no-exception[magnetic_elements / geodetic_vector]", route=route):
            md, gv = acc.value
            ctx.ok("magnetic_elements (read after every query) holds the values of the current query", all(md.get(k) == getattr(w, k) for k in ELEMS),
                   {"query_index": j, "dict": {k: md.get(k) for k in ("X", "Y", "Z")}, "attributes": {k: el[k] for k in ("X", "Y", "Z")}}, route=route)
            ctx.ok("geodetic_vector = (X, Y, Z) of the current query", bool(np.array_equal(gv, np.array([w.X, w.Y, w.Z], float))), route=route)
        if not judge_elements(ctx, el, lat, lon):
            continue
        exp = expected_xyz(lat, lon, h, cur_date, frame)
        got = np.array([el["X"], el["Y"], el["Z"]])
        if cur_date is None:
            continue
        mech = "after date=None query" if q["kind"] == "none" else ("constructor query" if q["kind"] == "ctor" else None)
        ctx.le("answer j of a query history equals the pure function of (date, place, frame)", float(np.abs(got - exp).max()), tol_for(lat),
               {"query_index": j, "history": log[-6:], "got": got, "expected": exp}, route=route, region=mech)
        ctx.le("object reports the date it was asked for", abs(float(w.date_dec) - float(cur_date)), 0.0 if q["kind"] != "ctor" else 2.0 / 365,
               {"date_dec": float(w.date_dec), "asked": cur_date, "kind": q["kind"]}, route=route, region=mech)


def check_entry(case, ctx):
    from ahrs.utils.wmm import WMM
    lat, lon, h, frame = case.p["lat"], case.p["lon"], case.p["h"], case.p["frame"]
    date = case.p["date"]
    d_arg = datetime.date(*date) if isinstance(date, list) else date
    r = "constructor-vs-method"
    o1 = call(lambda: elements(WMM(date=d_arg, latitude=lat, longitude=lon, height=h, frame=frame)))

    def meth():
        w = WMM(frame=frame)
        w.magnetic_field(lat, lon, h, date=d_arg)
        return elements(w), float(w.date_dec)
    o2 = call(meth)
    if not (ctx.returned(o1, route=r) and ctx.returned(o2, route=r)):
        return
    e1, (e2, date_dec) = o1.value, o2.value
    if not (judge_elements(ctx, e1, lat, lon) and judge_elements(ctx, e2, lat, lon)):
        return
    d = max(abs(e1[k] - e2[k]) for k in ("X", "Y", "Z"))
    ctx.le("constructor and method give the same field for the same date and place", d, 2 * tol_for(lat),
           {"date": date, "ctor": [e1[k] for k in "XYZ"], "method": [e2[k] for k in "XYZ"]}, route=r)
    if not isinstance(date, list):
        exp = expected_xyz(lat, lon, h, float(date), frame)
        ctx.le("method answer equals the pure function of (date, place, frame)", float(np.abs(np.array([e2[k] for k in "XYZ"]) - exp).max()), tol_for(lat), route=r)
    else:
        exp = expected_xyz(lat, lon, h, date_dec, frame)
        ctx.le("datetime.date answer equals the synthesis at the object's decimal date", float(np.abs(np.array([e2[k] for k in "XYZ"]) - exp).max()), tol_for(lat), route=r)
        ctx.le("decimal date of a datetime.date lies inside that calendar day (+-1 day)", abs(date_dec - (date[0] + (datetime.date(*date).timetuple().tm_yday - 0.5) / 365.25)), 2.5 / 365, route=r)


def check_place(case, ctx):
    from ahrs.utils.wmm import WMM
    kind, lat, lon, h, date, frame = (case.p[k] for k in ("kind", "lat", "lon", "h", "date", "frame"))

    def at(la, lo):
        w = WMM(frame=frame)
        w.magnetic_field(la, lo, h, date=date)
        return elements(w)
    if kind == "180":
        r = "longitude+-180"
        out = call(lambda: (at(lat, 180.0), at(lat, -180.0)))
        if ctx.returned(out, route=r):
            a, b = out.value
            if judge_elements(ctx, a, lat, 180.0) and judge_elements(ctx, b, lat, -180.0):
                ctx.le("field at longitude +180 equals field at -180", max(abs(a[k] - b[k]) for k in ("X", "Y", "Z", "H", "F", "I", "D")), 1e-6, {"+180": a, "-180": b}, route=r)
        return
    r = "poles" if kind == "pole" else "equator/prime-meridian"
    out = call(lambda: at(lat, lon))
    if ctx.returned(out, route=r) and judge_elements(ctx, out.value, lat, lon, route=r):
        exp = expected_xyz(lat, lon, h, date, frame)
        ctx.le("special place is computed like anywhere else", float(np.abs(np.array([out.value[k] for k in "XYZ"]) - exp).max()), tol_for(lat), {"lat": lat, "lon": lon}, route=r)
    out = call(lambda: elements(WMM(date=date, latitude=lat, longitude=lon, height=h, frame=frame)))
    if ctx.returned(out, route=r) and judge_elements(ctx, out.value, lat, lon, route=r):
        exp = expected_xyz(lat, lon, h, date, frame)
        ctx.le("special place through the constructor is computed like anywhere else", float(np.abs(np.array([out.value[k] for k in "XYZ"]) - exp).max()), tol_for(lat),
               {"lat": lat, "lon": lon}, route=r)
    if kind == "pole":
        o2 = call(lambda: (at(lat, lon), at(lat, 0.0)))
        if ctx.returned(o2, route=r):
            a, b = o2.value
            if judge_elements(ctx, a, lat, lon, route=r):
                ctx.le("at a pole H and F do not depend on the longitude", max(abs(a["H"] - b["H"]), abs(a["F"] - b["F"])), 1e-6, route=r)


def check_threads(case, ctx):
    """Two or three WMM objects queried in concurrent threads (thread switches forced inside the library): each answers as it does alone."""
    from ahrs.utils.wmm import WMM
    from .. import threads
    lat, lon, h, frame = case.p["lat"], case.p["lon"], case.p["h"], case.p["frame"]
    date = case.p["date"]
    d_arg = datetime.date(*date) if isinstance(date, list) else date
    r_ = np.random.Generator(np.random.PCG64(int(abs(lat) * 1e6) + 17))
    qs = [(lat, lon, h, d_arg)] + [(float(r_.uniform(-89, 89)), float(r_.uniform(-179, 179)), float(r_.uniform(0, 500)), draw_date(r_, bool(k % 2))) for k in range(1 + int(r_.integers(2)))]

    def ask(q):
        def f():
            w = WMM(frame=frame)
            w.magnetic_field(q[0], q[1], q[2], date=q[3])
            return np.array([w.X, w.Y, w.Z, w.H, w.F, w.I, w.D, w.GV], float)
        return f
    alone = [call(ask(q)) for q in qs]
    if not all(ctx.returned(o, route="threads") for o in alone):
        return
    outs, ny = threads.run([ask(q) for q in qs], seed=int(abs(lon) * 1e6))
    for j, (kind, v) in enumerate(outs):
        if kind != "ok":
            ctx.ok("a query answered in its own thread raises nothing it does not raise alone", False, {"error": v, "query": j}, route="threads")
            continue
        ctx.ok("objects queried in concurrent threads answer as they do alone (all eight elements, bit for bit)", bool(np.array_equal(v, alone[j].value, equal_nan=True)),
               {"query": j, "objects": len(qs), "yields_injected": ny, "max_diff": float(np.nanmax(np.abs(v - alone[j].value)))}, route="threads")


def extra_evidence():
    from .. import threads
    return {"threaded_runs": threads.STATS["runs"], "thread_yields_injected_inside_the_library": threads.STATS["yields"]}


def check(case, ctx):
    {"history": check_history, "entry": check_entry, "place": check_place}[case.route](case, ctx)
    if case.route == "entry" and int(abs(case.p["lat"]) * 1e3) % 3 == 0:
        check_threads(case, ctx)
