"""C16 - the ellipsoid gravity model satisfies the closed-form level-ellipsoid identities.

Closed-form identity monitor over randomly drawn reference ellipsoids, the
spherical limit (f -> 0 and f == 0) and the planetary constants table."""
import numpy as np

from .. import gens
from ..core import Case, call

PROP = "C16"
LEVEL = "exploration"
SHARDS = {"quick": 2, "thorough": 16}
THOROUGH_DEPTH = 60      # thorough tier = this many times the base thorough budget (VERIF_DEPTH overrides)
F_REGIONS = ["f:zero", "f:1e-6..1e-4", "f:1e-4..1e-2", "f:1e-2..0.2"]
REGIONS = {r: 50 for r in F_REGIONS}
REGIONS_FIXED = {"bodies": 9, "wgs84": 1}
ROUTES = ["ReferenceEllipsoid/constants", "ReferenceEllipsoid/pizzetti", "ReferenceEllipsoid/normal_gravity", "ReferenceEllipsoid/sphere-limit", "WGS"]
PROBES = [("ahrs.utils.geodesy", "ReferenceEllipsoid.normal_gravity"), ("ahrs.utils.geodesy", "ReferenceEllipsoid.equatorial_normal_gravity"),
          ("ahrs.utils.geodesy", "ReferenceEllipsoid.polar_normal_gravity"), ("ahrs.utils.geodesy", "ReferenceEllipsoid.first_eccentricity_squared"),
          ("ahrs.utils.geodesy", "ReferenceEllipsoid.second_eccentricity_squared"), ("ahrs.utils.geodesy", "ReferenceEllipsoid.linear_eccentricity")]
REQUIRED_PROBES = ["geodesy.ReferenceEllipsoid.normal_gravity", "geodesy.ReferenceEllipsoid.equatorial_normal_gravity", "geodesy.ReferenceEllipsoid.polar_normal_gravity"]
BODIES = ["MOON", "MERCURY", "VENUS", "MARS", "JUPITER", "SATURN", "URANUS", "NEPTUNE", "PLUTO"]
RULE = ("cases = (a in 1e5..1e8 m, f in {0, 1e-6..1e-4, 1e-4..1e-2, 1e-2..0.2}, GM in 1e8..1e18, m = w^2 a^2 b/GM in 1e-6..0.05) plus the nine bodies of the "
        "constants table and the WGS84 class; per ellipsoid: latitudes 0, +-90, +-45 and 6 random ones, heights 0..0.5 % of a; non-trivial = rotation rate non-zero")
ASSUMPTIONS = ["closed forms of Heiskanen & Moritz (Pizzetti, Somigliana) evaluated by the harness", "sphere limit: ge -> GM/(ab) (1 - 3m/2), gp -> GM/a^2 (1 + m), "
               "allowed deviation (3f + 1e-3) GM/a^2", "below f ~ 1e-8 (non-zero) the q0 formula cancels catastrophically: outside the property's domain, not generated"]


def generate(rng, tier, shard, nshards):
    n = gens.budget(200, tier, nshards)
    for i in range(n):
        reg = F_REGIONS[i % len(F_REGIONS)]
        f = {"f:zero": lambda: 0.0, "f:1e-6..1e-4": lambda: gens.logu(rng, 1e-6, 1e-4), "f:1e-4..1e-2": lambda: gens.logu(rng, 1e-4, 1e-2),
             "f:1e-2..0.2": lambda: gens.logu(rng, 1e-2, 0.2)}[reg]()
        a = gens.logu(rng, 1e5, 1e8)
        GM = gens.logu(rng, 1e8, 1e18)
        m = gens.logu(rng, 1e-6, 0.05)
        w = float(np.sqrt(m * GM / (a * a * a * (1 - f)))) * float(rng.choice([-1.0, 1.0]) if i % 5 == 0 else 1.0)
        if i % 9 == 4:
            w = 0.0 if i % 2 else w * 1e-6      # a body that does not rotate (m exactly 0, any flattening), or hardly
        yield Case("ellipsoid", reg, a=a, f=f, GM=GM, w=w, lats=[float(x) for x in rng.uniform(-90, 90, 6)], hs=[float(x) for x in np.sort(rng.uniform(0, 0.005 * a, 5))])
    # neighbours of the parameter sets the package ships (WGS84, GRS80, the bodies of the constants table): each defining parameter off by parts per
    # billion to parts per ten thousand - where a comparison with a tabled value ("is this the Earth?") would switch branches
    import ahrs
    C = ahrs.common.constants
    tabled = [(6378137.0, 1 / 298.257223563, 3.986004418e14, 7.292115e-5), (6378137.0, 1 / 298.257222101, 3.986005e14, 7.292115e-5),
              (6378137.0, 1 / 298.257223563, 3.9860050e14, 7.292115e-5)]
    for b in BODIES:
        try:
            a_ = float(getattr(C, b + "_EQUATOR_RADIUS"))
            tabled.append((a_, 1.0 - float(getattr(C, b + "_POLAR_RADIUS")) / a_, float(getattr(C, b + "_GM")), float(getattr(C, b + "_ROTATION"))))
        except AttributeError:
            pass
    for i in range(gens.budget(40, tier, nshards)):
        a, f, GM, w = tabled[i % len(tabled)] if i % 2 == 0 else tabled[i % 3]
        pert = [1.0 + float(rng.choice([-1, 1])) * gens.logu(rng, 1e-10, 1e-4) * float(rng.random() < 0.6) for _ in range(4)]
        if i < len(tabled):
            pert = [1.0] * 4          # the tabled set itself, handed over as numbers
        f2 = f * pert[1]
        reg = "f:zero" if f2 == 0 else ("f:1e-6..1e-4" if f2 < 1e-4 else ("f:1e-4..1e-2" if f2 < 1e-2 else "f:1e-2..0.2"))
        if 0 < f2 < 1e-6 or f2 > 0.2 or w * w * a ** 3 * (1 - f2) / GM > 0.05:
            continue
        yield Case("ellipsoid", reg, a=a * pert[0], f=f2, GM=GM * pert[2], w=w * pert[3], lats=[float(x) for x in rng.uniform(-90, 90, 3)],
                   hs=[float(x) for x in np.sort(rng.uniform(0, 0.005 * a, 3))], near_tabled=True)
    if shard == 0:
        for b in BODIES:
            yield Case("body", "bodies", body=b, lats=[float(x) for x in rng.uniform(-90, 90, 4)], hs=[0.001, 0.002, 0.004])
        yield Case("wgs", "wgs84", lats=[float(x) for x in rng.uniform(-90, 90, 6)], hs=[10.0, 1000.0, 10000.0, 30000.0])


def nontrivial(case):
    return case.route != "ellipsoid" or case.p["w"] != 0


def judge(ctx, E, a, f, GM, w, lats, hs):
    b = a * (1.0 - f)
    g0 = GM / a ** 2
    m = w * w * a * a * b / GM
    r = "ReferenceEllipsoid/constants"
    vals = call(lambda: dict(b=float(E.b), e2=float(E.first_eccentricity_squared), es2=float(E.second_eccentricity_squared), E=float(E.linear_eccentricity),
                             ge=float(E.equatorial_normal_gravity), gp=float(E.polar_normal_gravity), m=float(E.normal_gravity_constant)))
    if not ctx.returned(vals, route=r):
        return
    v = vals.value
    ctx.le("b = a (1 - f)", abs(v["b"] - b) / a, 1e-15, route=r)
    ctx.le("e^2 = (a^2 - b^2)/a^2", abs(v["e2"] - (a * a - b * b) / (a * a)), 4e-15, route=r)
    ctx.le("e'^2 = (a^2 - b^2)/b^2", abs(v["es2"] - (a * a - b * b) / (b * b)), 4e-15 * (a / b) ** 2, route=r)
    # a^2 - b^2 cancels for small f: the linear eccentricity is conditioned like eps / sqrt(f)
    ctx.le("E = sqrt(a^2 - b^2)", abs(v["E"] - np.sqrt(a * a - b * b)) / a, 2e-15 + (4e-16 / np.sqrt(f) if f > 0 else 0.0), route=r)
    ctx.le("m = w^2 a^2 b / GM", abs(v["m"] - m) / max(m, 1e-300), 1e-14, route=r)
    # the other derived constants and radii, each against its defining identity (re-evaluated here from a, b, GM, w)
    more = call(lambda: dict(ar=float(E.aspect_ratio), c=float(E.curvature_polar_radius), R1=float(E.arithmetic_mean_radius), R3=float(E.equivolumetric_sphere_radius),
                             R2=float(E.authalic_sphere_radius), N0=float(E.vertical_curvature_radius(0.0)), M0=float(E.meridian_curvature_radius(0.0)),
                             Np=float(E.vertical_curvature_radius(np.pi / 2)), Mp=float(E.meridian_curvature_radius(np.pi / 2)),
                             N1=float(E.vertical_curvature_radius(0.7)), M1=float(E.meridian_curvature_radius(0.7)), N1n=float(E.vertical_curvature_radius(-0.7)),
                             J2=float(E.dynamical_form_factor), C20=float(E.second_degree_zonal_harmonic), U0=float(E.normal_gravity_potential),
                             day=float(E.sidereal_day) if w > 0 else np.nan, mass=float(E.mass)))
    if ctx.returned(more, clause="no-exception[derived constants]", route=r):
        d = more.value
        e2 = (a * a - b * b) / (a * a)
        es = np.sqrt((a * a - b * b) / (b * b))
        cond = 1e-14 + (4e-16 / f if f > 0 else 0.0) * 0      # (identities below are written so that nothing cancels)
        ctx.le("aspect ratio = b/a", abs(d["ar"] - b / a), 2e-16 + cond, route=r)
        ctx.le("polar radius of curvature c = a^2/b", abs(d["c"] - a * a / b) / a, 1e-15, route=r)
        ctx.le("arithmetic mean radius = (2a + b)/3", abs(d["R1"] - (2 * a + b) / 3) / a, 1e-15, route=r)
        ctx.le("equivolumetric radius^3 = a^2 b", abs(d["R3"] ** 3 - a * a * b) / (a * a * b), 1e-14, route=r)
        if e2 > 0:
            e = np.sqrt(e2)
            RA = np.sqrt(0.5 * a * a * (1 + (1 - e2) / e * np.arctanh(e)))      # exact authalic radius; the library sums a series in e'^2 up to e'^10
            ctx.le("authalic radius = sqrt(area/4pi) (to the accuracy of the library's series)", abs(d["R2"] - RA) / a, 1e-13 + 0.6 * es ** 12, {"R2": d["R2"], "exact": RA, "f": f}, route=r)
        ctx.le("N(0) = a and M(0) = b^2/a", max(abs(d["N0"] - a), abs(d["M0"] - b * b / a)) / a, 1e-15, route=r)
        ctx.le("N(pi/2) = M(pi/2) = a^2/b", max(abs(d["Np"] - a * a / b), abs(d["Mp"] - a * a / b)) / a, 1e-14, route=r)
        s2 = np.sin(0.7) ** 2
        ctx.le("N(lat) = a / sqrt(1 - e^2 sin^2 lat), M(lat) = a (1 - e^2) / (1 - e^2 sin^2 lat)^(3/2), N symmetric in lat",
               max(abs(d["N1"] - a / np.sqrt(1 - e2 * s2)), abs(d["M1"] - a * (1 - e2) / (1 - e2 * s2) ** 1.5), abs(d["N1"] - d["N1n"])) / a, 1e-14, route=r)
        if es > 0:
            q0 = 0.5 * ((1 + 3 / es ** 2) * np.arctan(es) - 3 / es)
            # q0 ~ 2 e'^3/15 is a difference of terms of size 3/e': it carries a relative rounding noise of ~90 eps/e'^4, which the factor
            # 2 m e'/(15 q0) ~ m/e'^2 turns into ~90 eps m/e'^6 of J2: judged only where that is small, with that conditioning as tolerance
            noise = 90 * 2.2e-16 * m / es ** 6
            if noise < 1e-9:
                ctx.le("J2 = e^2/3 (1 - 2 m e'/(15 q0))", abs(d["J2"] - e2 / 3 * (1 - 2 * m * es / (15 * q0))) / max(e2, 1e-300), 1e-13 + 5 * noise + 4 * 2.2e-16 / f,      # (+ the cancellation in a^2 - b^2 of the library's e^2)
                        {"J2": d["J2"], "f": f}, route=r)
            else:
                ctx.note("J2 not judged: its closed form is rounding noise for this nearly spherical body")
            ctx.le("normalised C20 = -J2/sqrt(5)", abs(d["C20"] + d["J2"] / np.sqrt(5.0)), 1e-18 + 1e-15 * abs(d["J2"]), route=r)
            U0 = GM * np.arctan(es) / np.sqrt(a * a - b * b) + w * w * a * a / 3
            ctx.le("U0 = GM/E atan(e') + w^2 a^2/3", abs(d["U0"] - U0) / U0, 1e-13 + 1e-15 / es ** 2, route=r)
        if w > 0:
            ctx.le("sidereal day = 2 pi / w", abs(d["day"] - 2 * np.pi / w) * w, 1e-14, route=r)
        if type(E).__name__ == "ReferenceEllipsoid":      # (the WGS subclass defines its own mass with the 1986 value of G)
            ctx.le("mass = GM / G (CODATA 2018)", abs(d["mass"] - GM / 6.67430e-11) / (GM / 6.67430e-11), 1e-14, route=r)
    ge, gp = v["ge"], v["gp"]
    r = "ReferenceEllipsoid/pizzetti"
    ok = ctx.ok("ge and gp are finite positive accelerations", np.isfinite(ge) and np.isfinite(gp) and ge > 0 and gp > 0, {"ge": ge, "gp": gp, "GM/a^2": g0, "f": f}, route=r)
    if not ok:
        return
    rhs = 3 * GM / (a * a * b) - 2 * w * w
    ctx.le("Pizzetti: 2 ge/a + gp/b = 3GM/(a^2 b) - 2 w^2", abs(2 * ge / a + gp / b - rhs) / abs(rhs), 1e-12, {"ge": ge, "gp": gp, "f": f, "m": m}, route=r)
    r = "ReferenceEllipsoid/sphere-limit"
    if f <= 1e-3:
        lim = (3 * f + 1e-3) * g0
        ctx.le("ge close to the rotating-sphere value GM/(ab)(1 - 3m/2)", abs(ge - GM / (a * b) * (1 - 1.5 * m)), lim, {"ge": ge, "sphere": GM / (a * b) * (1 - 1.5 * m), "f": f}, route=r)
        ctx.le("gp close to the rotating-sphere value GM/a^2 (1 + m)", abs(gp - g0 * (1 + m)), lim, {"gp": gp, "sphere": g0 * (1 + m), "f": f}, route=r)
    r = "ReferenceEllipsoid/normal_gravity"
    # latitudes given as an array (with and without height): the same values as the scalar evaluations; the caller's array is left alone
    la_ = np.array([0.0, 90.0, -90.0, 45.0, -45.0] + [float(x) for x in lats])
    la_in = la_.copy()
    hh_ = float(hs[len(hs) // 2]) if len(hs) else 0.0
    outA = call(lambda: (np.asarray(E.normal_gravity(la_in), float), np.asarray(E.normal_gravity(la_in, hh_), float),
                         np.array([float(E.normal_gravity(float(x))) for x in la_]), np.array([float(E.normal_gravity(float(x), hh_)) for x in la_])))
    if ctx.returned(outA, clause="no-exception[array of latitudes]", route=r):
        A0, Ah, S0, Sh = outA.value
        if ctx.ok("array of latitudes gives one gravity value per latitude", A0.shape == S0.shape and Ah.shape == Sh.shape, {"shape": list(A0.shape)}, route=r):
            ctx.le("normal_gravity(array of latitudes[, h]) = the scalar evaluations", float(max(np.abs(A0 - S0).max(), np.abs(Ah - Sh).max()) / g0), 1e-15, {"h": hh_, "array": Ah, "scalar": Sh}, route=r)
        ctx.ok("the caller's latitude array is left as it was", np.array_equal(la_in, la_), {"after": la_in, "before": la_}, route=r)
    # short latitude arrays of every small size (1, 2, 3, 4 elements; also as a column): one gravity value per latitude, the scalar evaluations
    for n_ in (1, 2, 3, 4):
        arr = np.array(([-90.0, 0.0, 90.0, 45.0] if n_ % 2 else [float(x) for x in list(lats)[:4]] + [10.0] * 4)[:n_])
        oa = call(lambda: (np.asarray(E.normal_gravity(arr.copy()), float), np.asarray(E.normal_gravity(arr.copy(), hh_), float), np.array([float(E.normal_gravity(float(x))) for x in arr]),
                           np.array([float(E.normal_gravity(float(x), hh_)) for x in arr])))
        if ctx.returned(oa, clause="no-exception[short array of latitudes]", route=r):
            A0, Ah, S0, Sh = oa.value
            if ctx.ok("a short array of latitudes gives one gravity value per latitude", A0.shape == S0.shape and Ah.shape == Sh.shape, {"n": n_, "shape": list(np.shape(A0))}, route=r):
                ctx.le("normal_gravity(short array of latitudes[, h]) = the scalar evaluations", float(max(np.abs(A0 - S0).max(), np.abs(Ah - Sh).max()) / g0), 1e-15, {"n": n_, "latitudes": arr}, route=r)
    for lat in [0.0, 90.0, -90.0, 45.0, -45.0] + list(lats):
        out = call(lambda: (float(E.normal_gravity(lat)), float(E.normal_gravity(-lat)), [float(E.normal_gravity(lat, float(h))) for h in hs]))
        if not ctx.returned(out, route=r):
            return
        g, gneg, gh = out.value
        ctx.ok("normal gravity is positive and finite", np.isfinite(g) and g > 0, {"lat": lat, "g": g}, route=r)
        ctx.le("normal gravity is symmetric in latitude", abs(g - gneg) / g0, 1e-14, {"lat": lat}, route=r)
        if lat == 0.0:
            ctx.le("gravity at the equator = ge", abs(g - ge) / g0, 1e-14, route=r)
        if abs(lat) == 90.0:
            ctx.le("gravity at the poles = gp", abs(g - gp) / g0, 1e-13, route=r)
        if float(lat) == int(lat):      # whole-number latitude / height typed as int
            hi_ = int(round(hs[-1])) if len(hs) else 0
            oi = call(lambda: (float(E.normal_gravity(int(lat))), float(E.normal_gravity(int(lat), hi_)), float(E.normal_gravity(float(lat), float(hi_)))))
            if ctx.returned(oi, clause="no-exception[int latitude / height]", route=r):
                ctx.le("int-typed latitude / height give the same gravity as floats", max(abs(oi.value[0] - g), abs(oi.value[1] - oi.value[2])) / g0, 1e-15, {"lat": lat, "h": hi_}, route=r)
        seq = [g] + gh
        ctx.ok("normal gravity decreases with height (0 .. 0.5 % of a)", all(x > y for x, y in zip(seq[:-1], seq[1:])), {"lat": lat, "heights": hs, "g": seq}, route=r)
    # closely spaced height pairs on both sides of every round height in range (1, 2, 5 x 10^k metres, per-mille fractions of a): the places where a
    # formula would switch branches.  Gravity must still decrease across each pair, and by no more than the free-air rate allows (no jump)
    marks = sorted({m_ * 10.0 ** k for k in range(0, 7) for m_ in (1.0, 2.0, 3.0, 5.0)} | {a * x for x in (1e-4, 1e-3, 2e-3, 2.5e-3, 4e-3)})
    marks = [t for t in marks if t < 0.005 * a * 0.999]
    for lat in [0.0, 90.0] + [float(x) for x in list(lats)[:2]]:
        for t in marks:
            for d in (max(t * 1e-9, a * 1e-10), min(0.5, t * 0.01), min(40.0, t * 0.1)):
                out = call(lambda: (float(E.normal_gravity(lat, t - d)), float(E.normal_gravity(lat, t + d))))
                if not ctx.returned(out, clause="no-exception[heights next to a round value]", route=r):
                    continue
                g1, g2 = out.value
                ctx.ok("normal gravity decreases across a close pair of heights around a round height", g1 > g2, {"lat": lat, "heights": [t - d, t + d], "g": [g1, g2]}, route=r)
                ctx.le("across a close pair of heights gravity changes by at most the free-air rate (4 g/a per metre): no jump",
                       abs(g1 - g2), 4.0 * max(g1, g2) * 2 * d / a + 1e-14 * g0, {"lat": lat, "heights": [t - d, t + d], "g": [g1, g2]}, route=r)


def check_wgs_with_parameters(ctx, a, f, GM, w):
    """The WGS class accepts the four defining parameters too: it must describe the same ellipsoid as ReferenceEllipsoid(a, f, GM, w),
    also when one of them is 0 (a sphere: f = 0)."""
    from ahrs.utils.geodesy import ReferenceEllipsoid
    from ahrs.utils.wgs84 import WGS
    r = "WGS"
    out = call(lambda: [(float(E.a), float(E.f), float(E.b), float(E.equatorial_normal_gravity), float(E.polar_normal_gravity), float(E.normal_gravity(37.0, 0.001 * a)))
                        for E in (WGS(a, f, GM, w), ReferenceEllipsoid(a, f, GM, w))])
    if ctx.returned(out, clause="no-exception[WGS(a, f, GM, w)]", route=r):
        W_, R_ = (np.array(x) for x in out.value)
        ctx.le("WGS(a, f, GM, w) holds the parameters it was given", max(abs(W_[0] - a) / a, abs(W_[1] - f)), 0.0, {"a": a, "f": f, "held": W_[:2]}, route=r)
        ctx.le("WGS(a, f, GM, w) and ReferenceEllipsoid(a, f, GM, w) agree on b, ge, gp and normal gravity", float(np.max(np.abs(W_[2:] - R_[2:]) / np.abs(R_[2:]))), 1e-15,
               {"WGS": W_, "ReferenceEllipsoid": R_, "f": f}, route=r)


def check_parameters_updated(ctx, a, f, GM, w):
    """The object tracks its public defining parameters live: gravity read once, then w and gm re-assigned, then read again = a fresh object built
    with the new values (nothing remembered from the first read)."""
    from ahrs.utils.geodesy import ReferenceEllipsoid
    from ahrs.utils.wgs84 import WGS
    r = "ReferenceEllipsoid/constants"
    w2, GM2 = w * 0.9 + (1e-9 if w == 0 else 0.0), GM * 1.07

    def read(E):
        return np.array([float(E.equatorial_normal_gravity), float(E.polar_normal_gravity), float(E.normal_gravity(37.0)), float(E.normal_gravity(-62.0, 0.002 * a)), float(E.normal_gravity_constant)])
    for lab, mk in (("ReferenceEllipsoid", lambda: ReferenceEllipsoid(a, f, GM, w)), ("WGS", lambda: WGS(a, f, GM, w))):
        def seq():
            E = mk()
            first = read(E)
            E.w, E.gm = w2, GM2
            return first, read(E), read(ReferenceEllipsoid(a, f, GM2, w2))
        out = call(seq)
        if ctx.returned(out, clause="no-exception[w and gm re-assigned]", route=r):
            _, after, fresh = out.value
            ctx.le("after w and gm are re-assigned the object answers like a fresh one built with the new values", float(np.max(np.abs(after - fresh) / np.abs(fresh))), 1e-15,
                   {"class": lab, "after": after, "fresh": fresh}, route=r)


def check(case, ctx):
    from ahrs.utils.geodesy import ReferenceEllipsoid
    import ahrs.common.constants as C
    p = case.p
    if case.route == "ellipsoid":
        a, f, GM, w = p["a"], p["f"], p["GM"], p["w"]
        out = call(lambda: ReferenceEllipsoid(a, f, GM, w))
        if ctx.returned(out, route="ReferenceEllipsoid/constants"):
            judge(ctx, out.value, a, f, GM, w, p["lats"], p["hs"])
        check_wgs_with_parameters(ctx, a, f, GM, w)
        check_parameters_updated(ctx, a, f, GM, w)
    elif case.route == "body":
        nm = p["body"]
        a, b, GM, w = (float(getattr(C, nm + s)) for s in ("_EQUATOR_RADIUS", "_POLAR_RADIUS", "_GM", "_ROTATION"))
        f = (a - b) / a
        out = call(lambda: ReferenceEllipsoid(a, f, GM, w))
        if ctx.returned(out, route="ReferenceEllipsoid/constants"):
            judge(ctx, out.value, a, f, GM, w, p["lats"], [a * h for h in p["hs"]])
            ctx.note("body " + nm + (" (f = 0)" if f == 0 else ""))
        check_wgs_with_parameters(ctx, a, f, GM, w)
    else:
        from ahrs.utils.wgs84 import WGS
        out = call(lambda: WGS())
        if ctx.returned(out, route="WGS"):
            E = out.value
            judge(ctx, E, float(E.a), float(E.f), float(E.gm), float(E.w), p["lats"], p["hs"])
            o2 = call(lambda: (float(E.equatorial_normal_gravity), float(E.polar_normal_gravity), float(E.normal_gravity(45.0))))
            if ctx.returned(o2, route="WGS"):
                ctx.le("WGS84 ge = 9.7803253359 m/s^2", abs(o2.value[0] - 9.7803253359), 1e-9, route="WGS")
                ctx.le("WGS84 gp = 9.8321849379 m/s^2", abs(o2.value[1] - 9.8321849379), 1e-9, route="WGS")
