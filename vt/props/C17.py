"""C17 - coordinate-frame transformations are mutually inverse rigid maps.

Round-trip and isometry monitors on the functions of ahrs.common.frames."""
import numpy as np

from .. import forms, gens
from ..core import Case, call
from ..oracles import as_real_array

PROP = "C17"
LEVEL = "exploration"
SHARDS = {"quick": 2, "thorough": 16}
THOROUGH_DEPTH = 60      # thorough tier = this many times the base thorough budget (VERIF_DEPTH overrides)
ROUTES = ["geodetic<->ecef", "ecef<->enu", "enu<->aer", "enu<->dca", "ned<->enu", "llf<->ecef", "geodetic2enu"]
LAT_REGIONS = ["lat:generic", "lat:equator", "lat:near-equator", "lat:pole", "lat:near-pole"]
REGIONS = {r: 50 for r in LAT_REGIONS}
REGIONS.update({"local": 150})
PROBES = [("ahrs.common.frames", f) for f in ("geodetic2ecef", "ecef2geodetic", "ecef2enu", "enu2ecef", "ecef2enuv", "enu2uvw", "aer2enu", "enu2aer", "enu2dca",
                                             "dca2enu", "ned2enu", "enu2ned", "llf2ecef", "ecef2llf", "geodetic2enu", "ecef2lla")]
REQUIRED_PROBES = ["frames." + f for f in ("geodetic2ecef", "ecef2geodetic", "ecef2enu", "enu2ecef", "aer2enu", "enu2aer", "enu2dca", "dca2enu", "ned2enu",
                                           "enu2ned", "llf2ecef", "ecef2llf")]
RULE = ("geodetic cases: latitude generic / exactly 0 / within 1e-12..1e-5 deg of the equator / exactly +-90 / within 1e-9..1e-3 deg of a pole, longitude generic or "
        "0 / +-180 / +-90, height -10 km..1000 km; local cases: random origins (incl. poles and equator), ENU offsets 1..1e6 m, ECEF point pairs, angles over "
        "+-360 deg in degrees and radians; non-trivial = all")
ASSUMPTIONS = ["ecef2geodetic is a fixed-point iteration stopped at 1e-8 rad: latitude asked to 1e-7 deg, height to 1e-4 m", "at |lat| = 90 the longitude is "
               "compared only through the ECEF point", "ECEF round trips are limited by eps |X| ~ 1e-9 m"]


def generate(rng, tier, shard, nshards):
    n = gens.budget(400, tier, nshards)
    for i in range(n):
        reg = LAT_REGIONS[i % len(LAT_REGIONS)]
        lat = {"lat:generic": lambda: float(rng.uniform(-90, 90)), "lat:equator": lambda: 0.0,
               "lat:near-equator": lambda: float(rng.choice([-1, 1])) * gens.logu(rng, 1e-12, 1e-5), "lat:pole": lambda: float(rng.choice([-90.0, 90.0])),
               "lat:near-pole": lambda: float(rng.choice([-1, 1])) * (90.0 - gens.logu(rng, 1e-9, 1e-3))}[reg]()
        lon = float(rng.uniform(-180, 180)) if i % 3 else float(rng.choice([0.0, 180.0, -180.0, 90.0, -90.0]))
        h = float(rng.uniform(-1e4, 1e6)) if i % 4 else float(rng.choice([-1e4, 0.0, 1e6]))
        yield Case("geodetic", reg, lat=lat, lon=lon, h=h)
    for i in range(gens.budget(300, tier, nshards)):
        lat0 = float(rng.uniform(-90, 90)) if i % 6 else float(rng.choice([90.0, -90.0, 0.0]))
        yield Case("local", "local", lat0=lat0, lon0=float(rng.uniform(-180, 180)), h0=float(rng.uniform(-1e4, 1e6)), enu=gens.axis(rng) * gens.logu(rng, 1.0, 1e6),
                   P=rng.standard_normal(3) * 7e6, dP=gens.axis(rng) * gens.logu(rng, 1.0, 1e6), angle=float(rng.uniform(-360, 360)),
                   la=float(rng.uniform(-np.pi / 2, np.pi / 2)), lo=float(rng.uniform(-np.pi, np.pi)), A=rng.standard_normal((int(rng.integers(1, 6)), 3)) * gens.logu(rng, 1e-2, 1e6))


def ref_ecef(lat, lon, h, a=6378137.0, b=6356752.3142):      # the library's documented default ellipsoid
    """closed-form geodetic -> ECEF, written independently of the library (longdouble)"""
    L = np.longdouble
    la, lo, h, a, b = np.radians(L(lat)), np.radians(L(lon)), L(h), L(a), L(b)
    e2 = (a * a - b * b) / (a * a)
    N = a / np.sqrt(1 - e2 * np.sin(la) ** 2)
    return np.array([(N + h) * np.cos(la) * np.cos(lo), (N + h) * np.cos(la) * np.sin(lo), (N * (1 - e2) + h) * np.sin(la)], dtype=L)


def ref_enu(lat, lon, h, lat0, lon0, h0):
    L = np.longdouble
    d = ref_ecef(lat, lon, h) - ref_ecef(lat0, lon0, h0)
    la, lo = np.radians(L(lat0)), np.radians(L(lon0))
    Rm = np.array([[-np.sin(lo), np.cos(lo), 0], [-np.sin(la) * np.cos(lo), -np.sin(la) * np.sin(lo), np.cos(la)], [np.cos(la) * np.cos(lo), np.cos(la) * np.sin(lo), np.sin(la)]], dtype=L)
    return np.asarray(Rm @ d, float)


def check_geodetic(case, ctx):
    from ahrs.common import frames as f
    lat, lon, h = case.p["lat"], case.p["lon"], case.p["h"]
    r = "geodetic<->ecef"
    out = call(lambda: f.geodetic2ecef(lat, lon, h))
    if not ctx.returned(out, route=r):
        return
    X = as_real_array(ctx, out.value, (3,), route=r, what="ECEF point")
    if X is None:
        return
    # independent closed form of geodetic -> ECEF (WGS84)
    a, b = 6378137.0, 6356752.3142
    e2 = (a * a - b * b) / (a * a)
    phi, lam = np.radians(lat), np.radians(lon)
    N = a / np.sqrt(1 - e2 * np.sin(phi) ** 2)
    ref = np.array([(N + h) * np.cos(phi) * np.cos(lam), (N + h) * np.cos(phi) * np.sin(lam), (N * (1 - e2) + h) * np.sin(phi)])
    ctx.le("geodetic2ecef equals the closed form", np.abs(X - ref).max(), 1e-8, {"got": X, "ref": ref}, route=r)
    for nm, fn in (("ecef2geodetic", f.ecef2geodetic), ("ecef2lla", f.ecef2lla)):
        o2 = call(lambda: fn(*X))
        if not ctx.returned(o2, route=r):
            continue
        llh = as_real_array(ctx, o2.value, (3,), route=r, what="geodetic coordinates")
        if llh is None:
            continue
        ctx.le("geodetic -> ECEF -> geodetic returns the latitude (deg)", abs(llh[0] - lat), 1e-7, {"lat": lat, "back": llh[0], "via": nm}, route=r)
        ctx.le("... and the height (m)", abs(llh[2] - h), 1e-4, {"h": h, "back": llh[2], "lat": lat, "via": nm}, route=r)
        if abs(lat) != 90.0:
            ctx.le("... and the longitude (deg, modulo 360)", abs((llh[1] - lon + 180.0) % 360.0 - 180.0), 1e-9 / max(np.cos(phi), 1e-6), {"lon": lon, "back": llh[1], "via": nm}, route=r)
        else:
            # the property includes the poles: cos(90 deg) is 6e-17 in floating point, not 0, so x and y still carry the longitude and atan2 returns it
            ctx.le("... and the longitude at a pole (deg, modulo 360)", abs((llh[1] - lon + 180.0) % 360.0 - 180.0), 1e-9, {"lon": lon, "back": llh[1], "via": nm, "x_y": X[:2]}, route=r)
        o3 = call(lambda: f.geodetic2ecef(float(llh[0]), float(llh[1]), float(llh[2])))
        if ctx.returned(o3, route=r):
            ctx.le("the returned geodetic coordinates map back onto the ECEF point (m)", np.abs(np.asarray(o3.value, float) - X).max(), 2e-2, {"via": nm}, route=r)


def check_local(case, ctx):
    from ahrs.common import frames as f
    p = case.p
    lat0, lon0, h0, enu, P, dP, ang, la, lo, A = (p[k] for k in ("lat0", "lon0", "h0", "enu", "P", "dP", "angle", "la", "lo", "A"))
    ne = np.linalg.norm(enu)
    r = "ecef<->enu"
    out = call(lambda: f.enu2ecef(*enu, lat0, lon0, h0))
    if ctx.returned(out, route=r):
        X = np.asarray(out.value, float)
        o2 = call(lambda: f.ecef2enu(*X, lat0, lon0, h0))
        if ctx.returned(o2, route=r):
            ctx.le("ENU -> ECEF -> ENU is the identity", np.abs(np.asarray(o2.value, float) - enu).max(), 1e-8 + 1e-13 * ne, route=r)
        ctx.le("ENU -> ECEF preserves the length of the offset", abs(np.linalg.norm(X - np.asarray(f.geodetic2ecef(lat0, lon0, h0), float)) - ne), 1e-8 + 1e-13 * ne, route=r)
    out = call(lambda: (f.ecef2enu(*P, lat0, lon0, h0), f.ecef2enu(*(P + dP), lat0, lon0, h0)))
    if ctx.returned(out, route=r):
        e1, e2 = (np.asarray(x, float) for x in out.value)
        nd = np.linalg.norm(dP)
        ctx.le("ECEF -> ENU preserves distances between points", abs(np.linalg.norm(e1 - e2) - nd), 1e-7 + 1e-11 * nd, route=r)
        o2 = call(lambda: f.enu2ecef(*e1, lat0, lon0, h0))
        if ctx.returned(o2, route=r):
            ctx.le("ECEF -> ENU -> ECEF is the identity", np.abs(np.asarray(o2.value, float) - P).max(), 1e-7, route=r)
    out = call(lambda: f.ecef2enu(*f.geodetic2ecef(lat0, lon0, h0), lat0, lon0, h0))
    if ctx.returned(out, route=r):
        ctx.le("ECEF -> ENU maps the origin to zero", np.abs(np.asarray(out.value, float)).max(), 1e-8, route=r)
    out = call(lambda: (f.ecef2enuv(*dP, 0.0, 0.0, 0.0, lat0, lon0), f.enu2uvw(*enu, lat0, lon0)))
    if ctx.returned(out, route=r):
        v, u = (np.asarray(x, float) for x in out.value)
        ctx.le("ecef2enuv is a rotation (length preserved)", abs(np.linalg.norm(v) - np.linalg.norm(dP)), 1e-9 * np.linalg.norm(dP), route=r)
        ctx.le("enu2uvw is a rotation (length preserved)", abs(np.linalg.norm(u) - ne), 1e-9 * ne, route=r)
        o2 = call(lambda: f.ecef2enuv(*u, 0.0, 0.0, 0.0, lat0, lon0))
        if ctx.returned(o2, route=r):
            ctx.le("enu2uvw and ecef2enuv are inverse rotations", np.abs(np.asarray(o2.value, float) - enu).max(), 1e-9 * ne, route=r)
    r = "geodetic2enu"
    out = call(lambda: f.geodetic2enu(lat0, lon0, h0, lat0, lon0, h0))
    if ctx.returned(out, route=r):
        ctx.le("geodetic2enu of the origin itself is zero", np.abs(np.asarray(out.value, float)).max(), 1e-8, route=r)
    # neighbours of the origin at every scale (a survey mark centimetres away ... a city away): the local coordinates against an independent
    # evaluation of the closed forms, and against the library's own two-step route
    for k in range(6):
        sc = 10.0 ** (-10.0 + 1.8 * k + 1.7 * ((abs(lon0) * 1e3) % 1.0))          # offsets from 1e-10 to ~1 degree
        dla, dlo = sc * (1.0 if lat0 < 0 else -1.0) * (0.3 + (abs(h0) % 0.7)), sc * (1.0 if lon0 < 0 else -1.0) * (0.3 + (abs(lat0) % 0.7))
        la1, lo1, h1 = float(np.clip(lat0 + dla, -90.0, 90.0)), lon0 + dlo, h0 + (0.0, 12.5, -3.0)[k % 3]
        out = call(lambda: (np.asarray(f.geodetic2enu(la1, lo1, h1, lat0, lon0, h0), float), np.asarray(f.ecef2enu(*f.geodetic2ecef(la1, lo1, h1), lat0, lon0, h0), float)))
        if ctx.returned(out, clause="no-exception[neighbour of the origin]", route=r):
            want = ref_enu(la1, lo1, h1, lat0, lon0, h0)
            ctx.le("geodetic2enu of a neighbour of the origin equals the closed-form local coordinates (m)", float(np.abs(out.value[0] - want).max()), 1e-7 + 1e-12 * float(np.linalg.norm(want)),
                   {"origin": [lat0, lon0, h0], "point": [la1, lo1, h1], "got": out.value[0], "want": want}, route=r)
            ctx.le("geodetic2enu = ecef2enu(geodetic2ecef(...)) for a neighbour of the origin (m)", float(np.abs(out.value[0] - out.value[1]).max()), 1e-7, {"point": [la1, lo1, h1]}, route=r)
    # a whole track handed over as arrays (the functions that accept them): column k = the scalar call on point k, and the caller's arrays come back untouched
    K = 5
    O_ = np.asarray(f.geodetic2ecef(lat0, lon0, h0), float)
    Pk = np.array([P + (k + 1) * 0.37 * dP for k in range(K)])
    Ek = np.array([enu * (1.0 + 0.21 * k) for k in range(K)])
    az_, el_, rg_ = np.linspace(3.0, 350.0, K), np.linspace(-80.0, 85.0, K), np.linspace(0.0, ne, K)
    for r, fn, cols in (("ecef<->enu", lambda x, y, z: f.ecef2enu(x, y, z, lat0, lon0, h0), Pk.T), ("ecef<->enu", lambda x, y, z: f.ecef2enuv(x, y, z, O_[0], O_[1], O_[2], lat0, lon0), Pk.T),
                        ("ecef<->enu", lambda x, y, z: f.enu2uvw(x, y, z, lat0, lon0), Ek.T), ("enu<->aer", lambda x, y, z: f.aer2enu(x, y, z), np.array([az_, el_, rg_]))):
        args = [np.array(c, float) for c in cols]
        keep = [a_.copy() for a_ in args]
        out = call(lambda: np.asarray(fn(*args), float))
        if not ctx.returned(out, clause="no-exception[array arguments]", route=r):
            continue
        ctx.ok("array arguments come back as the caller handed them over", all(np.array_equal(a_, k_) for a_, k_ in zip(args, keep)), {"changed": [i for i, (a_, k_) in enumerate(zip(args, keep)) if not np.array_equal(a_, k_)]}, route=r)
        ref_cols = call(lambda: np.array([np.asarray(fn(float(keep[0][k]), float(keep[1][k]), float(keep[2][k])), float) for k in range(K)]).T)
        if ref_cols.ok and ctx.ok("array arguments give one column per point", out.value.shape == ref_cols.value.shape, {"shape": list(out.value.shape)}, route=r):
            sc_ = max(1.0, float(np.abs(ref_cols.value).max()))
            ctx.le("a track given as arrays = the scalar call point by point", float(np.abs(out.value - ref_cols.value).max()) / sc_, 1e-15, route=r)
    # exact zeros (values that are "false" in Python): the origin seen from itself, a target at zero range in any direction, zero height, zero angles
    r = "enu<->aer"
    for deg in (True, False):
        out = call(lambda: (np.asarray(f.enu2aer(0.0, 0.0, 0.0, deg=deg), float), np.asarray(f.aer2enu(float(ang % 360.0) if deg else float(np.radians(ang % 360.0)), 0.3, 0.0, deg=deg), float),
                            np.asarray(f.aer2enu(0.0, 0.0, ne, deg=deg), float), np.asarray(f.aer2enu(0, 0, 0, deg=deg), float)))
        if ctx.returned(out, clause="no-exception[zero range / zero angles]", route=r):
            aer0, e0, north, e00 = out.value
            ctx.le("the origin seen from itself is at slant range 0, and a target at range 0 is the origin whatever the direction", max(abs(aer0[2]), np.abs(e0).max(), np.abs(e00).max()), 0.0,
                   {"enu2aer(0,0,0)": aer0, "aer2enu(az, el, 0)": e0, "deg": deg}, route=r)
            ctx.le("azimuth 0 and elevation 0 point north", np.abs(north - np.array([0.0, ne, 0.0])).max(), 1e-12 * ne, {"got": north, "deg": deg}, route=r)
    r = "ecef<->enu"
    out = call(lambda: (np.asarray(f.enu2ecef(0.0, 0.0, 0.0, lat0, lon0, h0), float), np.asarray(f.geodetic2ecef(lat0, lon0, h0), float),
                        np.asarray(f.ecef2enuv(0.0, 0.0, 0.0, 0.0, 0.0, 0.0, lat0, lon0), float), np.asarray(f.enu2uvw(0.0, 0.0, 0.0, lat0, lon0), float)))
    if ctx.returned(out, clause="no-exception[zero offset]", route=r):
        ctx.le("the zero ENU offset is the origin itself (ECEF, m)", np.abs(out.value[0] - out.value[1]).max(), 1e-8, route=r)
        ctx.le("the zero vector rotates to the zero vector", max(np.abs(out.value[2]).max(), np.abs(out.value[3]).max()), 0.0, route=r)
    r = "enu<->aer"
    for deg in (True, False):
        out = call(lambda: f.enu2aer(*enu, deg=deg))
        if ctx.returned(out, route=r):
            aer = np.asarray(out.value, float)
            ctx.le("slant range is the length of the ENU vector", abs(aer[2] - ne), 1e-12 * ne, route=r)
            ctx.ok("azimuth in [0, 360) / [0, 2 pi)", 0.0 <= aer[0] < (360.0 if deg else 2 * np.pi) + 1e-12, {"az": aer[0], "deg": deg}, route=r)
            o2 = call(lambda: f.aer2enu(float(aer[0]), float(aer[1]), float(aer[2]), deg=deg))
            if ctx.returned(o2, route=r):
                ctx.le("ENU -> AER -> ENU is the identity", np.abs(np.asarray(o2.value, float) - enu).max(), 1e-12 * ne, {"deg": deg}, route=r)
    r = "enu<->dca"
    for deg, a_ in ((True, ang), (False, np.radians(ang))):
        out = call(lambda: f.enu2dca(*enu, a_, deg=deg))
        if ctx.returned(out, route=r):
            dca = np.asarray(out.value, float)
            ctx.le("ENU -> DCA preserves length", abs(np.linalg.norm(dca) - ne), 1e-12 * ne, route=r)
            o2 = call(lambda: f.dca2enu(*dca, a_, deg=deg))
            if ctx.returned(o2, route=r):
                ctx.le("ENU -> DCA -> ENU is the identity", np.abs(np.asarray(o2.value, float) - enu).max(), 1e-12 * ne, {"deg": deg}, route=r)
    r = "ned<->enu"
    out = call(lambda: (f.enu2ned(f.ned2enu(enu.copy())), f.enu2ned(f.ned2enu(A.copy())), f.ned2enu(enu.copy())))
    if ctx.returned(out, route=r):
        ctx.ok("NED -> ENU -> NED is the identity (vector)", np.array_equal(np.asarray(out.value[0], float), enu), route=r)
        ctx.ok("NED -> ENU -> NED is the identity (N rows)", np.array_equal(np.asarray(out.value[1], float), A), route=r)
        ctx.ok("NED -> ENU swaps north/east and negates down", np.array_equal(np.asarray(out.value[2], float), np.array([enu[1], enu[0], -enu[2]])), route=r)
    vi, Ai = np.round(enu / np.abs(enu).max() * 40.0), np.round(A / np.abs(A).max() * 40.0)      # whole-number coordinates, also as int arrays / lists / tuples
    if np.any(vi):
        forms.invariant(ctx, r, lambda x: f.ned2enu(x), [vi])
        forms.invariant(ctx, r, lambda x: f.enu2ned(x), [vi])
        forms.invariant(ctx, r, lambda x: f.ned2enu(x), [Ai])
        forms.invariant(ctx, r, lambda x: f.enu2ned(f.ned2enu(x)), [Ai])
    r = "llf<->ecef"
    # eci2ecef is not among the transformations C17 names; observed only (it returns cos(w)*t instead of cos(w*t): not a rotation, zero for t = 0)
    out = call(lambda: np.asarray(f.eci2ecef(7.292115e-5, 1000.0), float))
    if out.ok:
        ctx.note("observation (not judged): eci2ecef(w, t) is %s" % ("orthogonal" if np.abs(out.value @ out.value.T - np.eye(3)).max() < 1e-12 else "not an orthogonal matrix"))
    out = call(lambda: (np.asarray(f.llf2ecef(la, lo), float), np.asarray(f.ecef2llf(la, lo), float)))
    if ctx.returned(out, route=r):
        M1, M2 = out.value
        ctx.le("llf2ecef and ecef2llf are transposes", np.abs(M1 - M2.T).max(), 4e-15, route=r)
        ctx.le("llf2ecef is orthogonal", np.abs(M1 @ M1.T - np.eye(3)).max(), 4e-15, route=r)
        ctx.le("llf2ecef has determinant +1", abs(np.linalg.det(M1) - 1.0), 1e-14, route=r)


BODIES = [(1738100.0, 1736000.0), (3396190.0, 3376200.0), (6051800.0, 6051800.0), (71492000.0, 66854000.0), (6378137.0, 6356752.3142)]   # Moon, Mars, Venus (sphere), Jupiter, Earth


def check_other_ellipsoid(case, ctx):
    """every transformation that takes the ellipsoid (a, b) as an option, on another body's ellipsoid: the same identities must hold"""
    from ahrs.common import frames as f
    p = case.p
    a, b = BODIES[int(abs(p["lon0"]) * 1e3) % len(BODIES)]
    lat0, lon0 = p["lat0"], p["lon0"]
    h0 = float(p["h0"]) * a / 6378137.0
    enu = np.asarray(p["enu"], float) * a / 6378137.0
    ne = np.linalg.norm(enu)
    r = "geodetic<->ecef"
    out = call(lambda: np.asarray(f.geodetic2ecef(lat0, lon0, h0, a, b), float))
    if not ctx.returned(out, clause="no-exception[a, b given]", route=r):
        return
    O = out.value
    e2 = (a * a - b * b) / (a * a)
    phi, lam = np.radians(lat0), np.radians(lon0)
    N = a / np.sqrt(1 - e2 * np.sin(phi) ** 2)
    ref = np.array([(N + h0) * np.cos(phi) * np.cos(lam), (N + h0) * np.cos(phi) * np.sin(lam), (N * (1 - e2) + h0) * np.sin(phi)])
    ctx.le("geodetic2ecef(a=, b=) equals the closed form on that ellipsoid", np.abs(O - ref).max() / a, 1e-14, {"a": a, "b": b}, route=r)
    for nm, fn in (("ecef2geodetic", f.ecef2geodetic), ("ecef2lla", f.ecef2lla)):
        o2 = call(lambda: np.asarray(fn(*O, a, b), float))
        if ctx.returned(o2, clause="no-exception[a, b given]", route=r):
            llh = o2.value
            ctx.le("geodetic -> ECEF -> geodetic on another ellipsoid returns latitude (deg) and height (relative to a)",
                   max(abs(llh[0] - lat0), abs(llh[2] - h0) / a * 1e7), 1e-6, {"a": a, "b": b, "via": nm, "lat": lat0, "back": llh}, route=r)
    r = "ecef<->enu"
    out = call(lambda: (np.asarray(f.enu2ecef(*enu, lat0, lon0, h0, a, b), float), np.asarray(f.ecef2enu(*O, lat0, lon0, h0, a, b), float)))
    if ctx.returned(out, clause="no-exception[a, b given]", route=r):
        X, zero = out.value
        ctx.le("ECEF -> ENU on another ellipsoid maps its origin to zero", np.abs(zero).max() / a, 1e-14, {"a": a, "b": b, "image_of_origin": zero}, route=r)
        o2 = call(lambda: np.asarray(f.ecef2enu(*X, lat0, lon0, h0, a, b), float))
        if ctx.returned(o2, route=r):
            ctx.le("ENU -> ECEF -> ENU on another ellipsoid is the identity", np.abs(o2.value - enu).max() / a, 1e-14 + 1e-13 * ne / a, {"a": a, "b": b}, route=r)
        ctx.le("ENU -> ECEF on another ellipsoid preserves the length of the offset", abs(np.linalg.norm(X - O) - ne) / a, 1e-14 + 1e-13 * ne / a, route=r)
    r = "geodetic2enu"
    la1, lo1, h1 = float(np.clip(lat0 + 0.01, -89.9, 89.9)), (lon0 - 0.01 if lon0 > 0 else lon0 + 0.01), h0 + 10.0
    out = call(lambda: (np.asarray(f.geodetic2enu(la1, lo1, h1, lat0, lon0, h0, a, b), float), np.asarray(f.ecef2enu(*f.geodetic2ecef(la1, lo1, h1, a, b), lat0, lon0, h0, a, b), float)))
    if ctx.returned(out, clause="no-exception[a, b given]", route=r):
        ctx.le("geodetic2enu(a=, b=) = ecef2enu(geodetic2ecef(...)) on that ellipsoid", np.abs(out.value[0] - out.value[1]).max() / a, 1e-14, {"a": a, "b": b}, route=r)
    # enu2uvw with angles in radians
    out = call(lambda: (np.asarray(f.enu2uvw(*enu, lat0, lon0), float), np.asarray(f.enu2uvw(*enu, np.radians(lat0), np.radians(lon0), angle_unit="rad"), float)))
    if ctx.returned(out, clause="no-exception[angle_unit=rad]", route="ecef<->enu"):
        ctx.le("enu2uvw(angle_unit='rad') = enu2uvw(degrees)", np.abs(out.value[0] - out.value[1]).max() / max(ne, 1e-300), 1e-14, route="ecef<->enu")


def check_keyword_calls(case, ctx):
    """f(a, b, c) and f(x=a, y=b, z=c) (names taken from the signature) are the same call; so are the two functions of an inverse pair called by keyword"""
    import inspect
    from ahrs.common import frames as f
    p = case.p
    e, n, u = (float(x) for x in p["enu"])
    la0, lo0, h0, ang = float(p["lat0"]), float(p["lon0"]), float(p["h0"]), float(p["angle"])
    X, Y, Z = (float(x) for x in p["P"])
    la, lo = float(p["la"]), float(p["lo"])
    specs = (("enu<->aer", f.enu2aer, (e, n, u)), ("enu<->aer", f.aer2enu, (ang, 33.0, 250.0)), ("enu<->dca", f.enu2dca, (e, n, u, ang)), ("enu<->dca", f.dca2enu, (e, n, u, ang)),
             ("ecef<->enu", f.enu2ecef, (e, n, u, la0, lo0, h0)), ("ecef<->enu", f.ecef2enu, (X, Y, Z, la0, lo0, h0)), ("ecef<->enu", f.enu2uvw, (e, n, u, la0, lo0)),
             ("ecef<->enu", f.ecef2enuv, (X, Y, Z, X - 1e3, Y + 5e2, Z - 2.5e2, la0, lo0)), ("geodetic<->ecef", f.geodetic2ecef, (la0, lo0, h0)),
             ("geodetic<->ecef", f.ecef2geodetic, (X, Y, Z)), ("geodetic<->ecef", f.ecef2lla, (X, Y, Z)), ("geodetic2enu", f.geodetic2enu, (la0, lo0, h0, la0 * 0.9, lo0 * 0.9, h0 + 10.0)),
             ("llf<->ecef", f.llf2ecef, (la, lo)), ("llf<->ecef", f.ecef2llf, (la, lo)))
    for r, fn, args in specs:
        names = list(inspect.signature(fn).parameters)[:len(args)]
        out = call(lambda: (np.asarray(fn(*args), float), np.asarray(fn(**dict(zip(names, args))), float)))
        if ctx.returned(out, clause="no-exception[keyword call]", route=r):
            ctx.ok("a call by keyword (parameter names of the signature) returns what the positional call returns", out.value[0].shape == out.value[1].shape and np.array_equal(out.value[0], out.value[1], equal_nan=True),
                   {"function": fn.__name__, "names": names}, route=r)
    # the inverse pair by keyword: same latitude and longitude handed to both under their parameter names
    out = call(lambda: (np.asarray(f.llf2ecef(lat=la, lon=lo), float), np.asarray(f.ecef2llf(lat=la, lon=lo), float)))
    if ctx.returned(out, clause="no-exception[keyword call]", route="llf<->ecef"):
        ctx.le("llf2ecef(lat=, lon=) and ecef2llf(lat=, lon=) are transposes of each other", np.abs(out.value[0] - out.value[1].T).max(), 4e-15, route="llf<->ecef")


def check_int_scalars(case, ctx):
    """whole-number coordinates / angles typed as Python int or NumPy integers: the same numbers must give the same result as floats"""
    from ahrs.common import frames as f
    p = case.p
    e, n, u = (int(round(x)) for x in (p["enu"] / np.abs(p["enu"]).max() * 400.0))
    la0, lo0, h0, ang = int(np.clip(round(p["lat0"]), -89, 89)), int(round(p["lon0"])), int(round(p["h0"])), int(round(p["angle"]))
    X, Y, Z = (int(round(x)) for x in p["P"])
    specs = (("enu<->aer", lambda a, b, c: f.enu2aer(a, b, c), (e, n, u)), ("enu<->aer", lambda a, b, c: f.aer2enu(a, b, c), (ang, la0 % 90, 250)),
             ("enu<->dca", lambda a, b, c, d: f.enu2dca(a, b, c, d), (e, n, u, ang)), ("enu<->dca", lambda a, b, c, d: f.dca2enu(a, b, c, d), (e, n, u, ang)),
             ("ecef<->enu", lambda a, b, c, d, g, h: f.enu2ecef(a, b, c, d, g, h), (e, n, u, la0, lo0, h0)),
             ("ecef<->enu", lambda a, b, c, d, g, h: f.ecef2enu(a, b, c, d, g, h), (X, Y, Z, la0, lo0, h0)),
             ("ecef<->enu", lambda a, b, c, d, g: f.enu2uvw(a, b, c, d, g), (e, n, u, la0, lo0)),
             ("ecef<->enu", lambda a, b, c, d, g, h, i, j: f.ecef2enuv(a, b, c, d, g, h, i, j), (X, Y, Z, X - 1000, Y + 500, Z - 250, la0, lo0)),
             ("geodetic<->ecef", lambda a, b, c: f.geodetic2ecef(a, b, c), (la0, lo0, h0)), ("geodetic<->ecef", lambda a, b, c: f.ecef2geodetic(a, b, c), (X, Y, Z)),
             ("geodetic2enu", lambda a, b, c, d, g, h: f.geodetic2enu(a, b, c, d, g, h), (la0, lo0, h0, la0 + 1, lo0 - 1, h0 + 100)),
             ("llf<->ecef", lambda a, b: f.llf2ecef(a, b), (la0, lo0)))
    for r, fn, args in specs:
        base = call(lambda: np.asarray(fn(*[float(x) for x in args]), float))
        if not base.ok:
            continue
        for lab, conv in (("int", int), ("np.int64", np.int64)):     # (not int32: squaring ECEF metres overflows 32 bits - NumPy's own semantics)
            out = call(lambda: np.asarray(fn(*[conv(x) for x in args]), float))
            if not out.ok:
                ctx.note("int-typed scalars refused/crashed with %s (recorded, not judged)" % out.exc_name)
                continue
            sc = max(1.0, float(np.abs(base.value).max()))
            ok = out.value.shape == base.value.shape
            ctx.le("whole-number coordinates typed as int give the same result as floats", float(np.abs(out.value - base.value).max() / sc) if ok else float("inf"), 1e-12,
                   {"type": lab, "args": list(args), "int": out.value, "float": base.value}, route=r)


def check(case, ctx):
    (check_geodetic if case.route == "geodetic" else check_local)(case, ctx)
    if case.route != "geodetic":
        check_int_scalars(case, ctx)
        check_other_ellipsoid(case, ctx)
        check_keyword_calls(case, ctx)
