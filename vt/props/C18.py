"""C18 - rotation metrics are bi-invariant distances with their closed forms.

Closed-form monitor (each function vs its formula in the relative angle t),
invariance monitor (swap, negation, left / right multiplication) and triangle
monitor over triples.  Rotations are built by the harness."""
import numpy as np

from .. import forms as vforms
from .. import gens
from ..core import Case, call
from ..ref import quat as rq

PROP = "C18"
LEVEL = "exploration"
SHARDS = {"quick": 2, "thorough": 16}
THOROUGH_DEPTH = 20      # thorough tier = this many times the base thorough budget (VERIF_DEPTH overrides)
S2 = np.sqrt(2.0)
CLOSED = {
    "angular_distance": lambda t: S2 * t,
    "chordal": lambda t: 2 * S2 * np.sin(t / 2),
    "identity_deviation": lambda t: 2 * S2 * np.sin(t / 2),
    "qdist": lambda t: 2.0 * np.sin(t / 4),            # = sqrt(2 (1 - cos(t/2)))
    "qeip": lambda t: 2.0 * np.sin(t / 4) ** 2,        # = 1 - cos(t/2)
    "qcip": lambda t: t / 2,
    "qad": lambda t: t,
}
MATRIX = ["angular_distance", "chordal", "identity_deviation"]
QUAT = ["qdist", "qeip", "qcip", "qad"]
TRIANGLE = ["chordal", "identity_deviation", "angular_distance", "qdist", "qcip", "qad"]
BATCH = ["chordal", "qdist", "qeip", "qcip", "qad"]
ROUTES = MATRIX + QUAT + [f + "[batch]" for f in BATCH]
T_REGIONS = ["tiny", "small", "band", "mid", "nearpi", "nearpi_close", "exact_pi", "exact_pi_axis", "right_angle"]
REGIONS = {"t:" + r: 40 for r in T_REGIONS}
REGIONS["triple"] = 100
REGIONS["whole"] = 40
REGIONS_FIXED = {"long": 1}
PROBES = [("ahrs.utils.metrics", f) for f in MATRIX + QUAT] + [("ahrs.common.dcm", "DCM.log")]
REQUIRED_PROBES = ["metrics." + f for f in MATRIX + QUAT] + ["dcm.DCM.log"]
RULE = ("pair cases: q1 Haar-random, q2 = q1 * (axis, t) with the relative angle t drawn per region: 1e-4..1e-3, 1e-3..1e-2, 1e-3..2e-2 "
        "(around the removed isclose(trace,3) band), 1e-2..3, pi-1e-1..pi-1e-6, pi-1e-6..pi-1e-12, exactly pi (incl. axis-aligned pairs whose 4-vectors are exactly orthogonal), exactly pi/2; each pair is "
        "evaluated in 5 forms (as is, swapped, one quaternion negated, both left-multiplied, both right-multiplied by a random g) "
        "for all 7 functions and as 2..4-row batches; triple cases: three random rotations (incl. close ones) for the triangle "
        "inequality; non-trivial = t > 0")
ASSUMPTIONS = ["relative angle t is the generator's, rotations built with vt/ref/quat.py", "functions using arccos are granted the "
               "first-order accuracy of that formula: eps/t near 0 and sqrt(eps) within 1e-8 of pi", "qeip is not a metric: no triangle clause"]


def tol_for(name, t):
    if name == "qcip":
        return 1e-13 + min(2e-14 / t, 3e-8)
    if name == "qad":
        return 1e-13 + min(2e-14 / t, 3e-8) + min(2e-14 / max(np.pi - t, 1e-300), 6e-8)
    return 1e-13


def draw_t(rng, reg):
    return {"tiny": lambda: gens.logu(rng, 1e-4, 1e-3), "small": lambda: gens.logu(rng, 1e-3, 1e-2), "band": lambda: gens.logu(rng, 1e-3, 2e-2),
            "mid": lambda: float(rng.uniform(1e-2, 3.0)), "nearpi": lambda: float(np.pi - gens.logu(rng, 1e-6, 1e-1)),
            "nearpi_close": lambda: float(np.pi - gens.logu(rng, 1e-12, 1e-6)), "exact_pi": lambda: float(np.pi), "exact_pi_axis": lambda: float(np.pi),
            "right_angle": lambda: float(np.pi / 2)}[reg]()


def generate(rng, tier, shard, nshards):
    n = gens.budget(800, tier, nshards)
    for i in range(n):
        reg = T_REGIONS[i % len(T_REGIONS)]
        ax = gens.axis(rng) if i % 5 else gens.AXIS_ALIGNED[rng.integers(6)].copy()
        q1 = gens.unit(rng)
        if reg == "exact_pi_axis":      # q1 and q2 exactly orthogonal 4-vectors (inner product exactly 0)
            q1 = np.zeros(4)
            q1[int(rng.integers(4))] = 1.0
            ax = gens.AXIS_ALIGNED[int(rng.integers(6))].copy()
        yield Case("pair", "t:" + reg, q1=q1, axis=ax, t=draw_t(rng, reg), g=gens.unit(rng) if reg != "exact_pi_axis" else np.array([1.0, 0, 0, 0]), rows=int(rng.integers(2, 5)),
                   scale=gens.logu(rng, 0.1, 10.0))
    for i in range(gens.budget(300, tier, nshards)):
        a = gens.unit(rng)
        if i % 3 == 0:
            b = rq.qmul(a, rq.axang2q(gens.axis(rng), gens.logu(rng, 1e-4, 1.0)))
            c = rq.qmul(b, rq.axang2q(gens.axis(rng), gens.logu(rng, 1e-4, 1.0)))
        elif i % 3 == 1:   # collinear rotations: triangle inequality is tight
            ax = gens.axis(rng)
            t1, t2 = rng.uniform(0.05, 1.5, 2)
            b = rq.qmul(a, rq.axang2q(ax, t1))
            c = rq.qmul(b, rq.axang2q(ax, t2))
        else:
            b, c = gens.unit(rng), gens.unit(rng)
        yield Case("triple", "triple", a=a, b=b, c=c)
    if shard == 0:     # one long recording per run: ten minutes at 100 Hz compared row by row
        yield Case("long", "long", N=20000 if tier == "quick" else 60000, t=float(rng.uniform(0.2, 2.5)), seed=int(rng.integers(2**31)))
    for i in range(gens.budget(60, tier, nshards)):
        yield Case("whole", "whole", i=int(rng.integers(len(WHOLE_Q))), j=int(rng.integers(len(WHOLE_Q))), rows=int(rng.integers(1, 4)))


WHOLE_Q = np.array([[1, 0, 0, 0], [0, 1, 0, 0], [0, 0, 1, 0], [0, 0, 0, 1], [1, 1, 0, 0], [1, -1, 0, 0], [1, 0, 1, 0], [1, 0, 0, -1], [1, 1, 1, 1], [1, -1, 1, -1],
                    [1, 1, -1, -1], [0, 1, 1, 0], [0, 1, -1, 0], [0, 0, 1, 1], [-1, 1, 1, 1], [2, 0, 0, 0], [0, -3, 0, 0]], float)


def check_whole(case, ctx):
    """Rotations of the cube: whole-number quaternions and their whole-number matrices, also handed over as int arrays / lists."""
    from ahrs.utils import metrics as M
    e1, e2, k = WHOLE_Q[int(case.p["i"])], WHOLE_Q[int(case.p["j"])], int(case.p["rows"])
    R1, R2 = np.round(rq.refR(e1 / np.linalg.norm(e1))), np.round(rq.refR(e2 / np.linalg.norm(e2)))
    t = float(np.arccos(np.clip((np.trace(R1.T @ R2) - 1.0) / 2.0, -1.0, 1.0)))     # exact: the matrices are whole numbers (angles 0, 90, 120, 180 deg)
    for name in MATRIX:
        fn = getattr(M, name)
        out = call(lambda: float(fn(R1.copy(), R2.copy())))
        if ctx.returned(out, route=name):
            ctx.le("equals its closed form in the relative angle", abs(out.value - CLOSED[name](t)), tol_for(name, t), {"t": t, "d": out.value}, route=name)
        vforms.invariant(ctx, name, lambda a, b: fn(a, b), [R1, R2])
    for name in QUAT:
        fn = getattr(M, name)
        vforms.invariant(ctx, name, lambda a, b: fn(a, b), [e1, e2])
    S1, S2 = np.array([R1, R2, R1][:k]), np.array([R2, R2, R1][:k])
    Q1, Q2 = np.array([e1, e2, e1][:k]), np.array([e2, e2, -e1][:k])
    for name in BATCH:
        fn = getattr(M, name)
        vforms.invariant(ctx, name + "[batch]", lambda a, b: fn(a, b), [S1, S2] if name in MATRIX else [Q1, Q2])
    # a distance is symmetric, whatever the element types of its two arguments: one argument typed int (or float32), the other float64, in both orders -
    # both calls answer alike or both refuse alike
    g_ = rq.refR(np.array([0.5, -0.5, 0.5, 0.5]))
    for name in MATRIX + QUAT + [b + "[batch]" for b in BATCH]:
        base = name.replace("[batch]", "")
        fn = getattr(M, base)
        if name.endswith("[batch]"):
            A_, B_ = (S1, np.array([g_ @ x for x in S2])) if base in MATRIX else (Q1, np.array([rq.qmul(np.array([0.5, -0.5, 0.5, 0.5]), x) for x in Q2]))
        else:
            A_, B_ = (R1, g_ @ R2) if base in MATRIX else (e1, rq.qmul(np.array([0.5, -0.5, 0.5, 0.5]), e2))
        for lab, conv in (("int64", lambda x: np.round(x).astype(np.int64)), ("float32", lambda x: x.astype(np.float32))):
            a_t = conv(A_)
            o1, o2 = call(lambda: np.asarray(fn(a_t.copy(), B_.copy()), float)), call(lambda: np.asarray(fn(B_.copy(), a_t.copy()), float))
            if not o1.ok and not o2.ok:
                ctx.note("%s refuses a %s argument in either position (%s)" % (name, lab, o1.exc_name))
                continue
            if o1.ok != o2.ok:
                bad = o2 if o1.ok else o1
                ctx.ok("a distance answers alike for (a, b) and (b, a) when the two arguments have different element types", False,
                       {"types": [lab, "float64"], "refused_order": "(b, a)" if o1.ok else "(a, b)", "exc": "%s: %s" % (bad.exc_name, str(bad.exc)[:80])}, route=name)
                continue
            ctx.le("a distance answers alike for (a, b) and (b, a) when the two arguments have different element types", float(np.abs(o1.value - o2.value).max()), 1e-13, {"types": [lab, "float64"]}, route=name)


def nontrivial(case):
    return case.route in ("triple", "whole") or case.p["t"] > 0


def fill_default_container(R):
    """what a caller may do before measuring distances: a default-constructed DCM used as a container and filled column by column"""
    from ahrs.common.dcm import DCM
    D = DCM()
    D[:, 0], D[:, 1], D[:, 2] = R[:, 0], R[:, 1], R[:, 2]
    return np.array(D, float)


def check_pair(case, ctx):
    from ahrs.utils import metrics as M
    q1, ax, t, g, sc = case.p["q1"], case.p["axis"], case.p["t"], case.p["g"], case.p["scale"]
    q2 = rq.qmul(q1, rq.axang2q(ax, t)) if case.region not in ("t:exact_pi", "t:exact_pi_axis") else rq.qmul(q1, np.r_[0.0, ax])
    forms = {"as is": (q1, q2), "swapped": (q2, q1), "negated": (q1, -q2), "left-multiplied": (rq.qmul(g, q1), rq.qmul(g, q2)),
             "right-multiplied": (rq.qmul(q1, g), rq.qmul(q2, g))}
    for name in MATRIX + QUAT:
        fn = getattr(M, name)
        exp, tol = CLOSED[name](t), tol_for(name, t)
        vals = {}
        for form, (a, b) in forms.items():
            if name in MATRIX:
                if form == "negated":
                    continue
                # (the first matrix of the "as is" form passes through a default-constructed DCM filled in place, as a caller assembling it column by column would)
                out = call(lambda: fn(fill_default_container(rq.refR(a)) if form == "as is" else rq.refR(a), rq.refR(b)))
            else:
                out = call(lambda: fn(a.copy() * (sc if form == "as is" else 1.0), b.copy()))   # quaternion metrics normalise their input
            if not ctx.returned(out, route=name):
                continue
            d = out.value
            if not ctx.ok("distance is a real finite scalar", np.ndim(d) == 0 and np.isrealobj(d) and np.isfinite(d), {"value": repr(d)[:80], "form": form}, route=name):
                continue
            d = float(d)
            vals[form] = d
            ctx.ok("distance is non-negative", d >= 0.0, {"d": d}, route=name)
            ctx.le("equals its closed form in the relative angle", abs(d - exp), tol, {"form": form, "t": t, "d": d, "expected": exp}, route=name)
            if t >= 1e-4:
                ctx.ok("positive for distinct rotations", d > 0.0, {"t": t, "d": d, "form": form}, route=name)
        if "as is" in vals:
            for form in ("swapped", "negated", "left-multiplied", "right-multiplied"):
                if form in vals:
                    ctx.le("unchanged when " + form, abs(vals[form] - vals["as is"]), 2 * tol, {"t": t}, route=name)
        a = rq.refR(q1) if name in MATRIX else q1
        out = call(lambda: fn(a.copy(), a.copy()))
        if ctx.returned(out, route=name):
            ctx.le("distance of a rotation to itself is 0", abs(float(out.value)), 1e-7 if name in ("qcip", "qad") else 1e-14, route=name)
        if name in QUAT:
            out = call(lambda: fn(q1.copy(), -q1))
            if ctx.returned(out, route=name):
                ctx.le("distance between q and -q is 0", abs(float(out.value)), 1e-7 if name in ("qcip", "qad") else 1e-14, route=name)
    # the same float64 quaternions / matrices held in a read-only array or a strided view (a broadcast reference, a column of a log)
    for name in MATRIX + QUAT:
        fn = getattr(M, name)
        vforms.invariant(ctx, name, lambda x, y: fn(x, y), [rq.refR(q1), rq.refR(q2)] if name in MATRIX else [q1.copy(), q2.copy()], lists=False, layouts=True, objects=True,
                        tol=1e-7 if name in ("qcip", "qad") else 1e-12, clause="the same values in a read-only array, a strided view or one of the library's own array objects give the same distance")
    # N-row inputs
    k = int(case.p["rows"])
    Q1 = np.array([q1] + [forms["left-multiplied"][0]] * (k - 1))
    Q2 = np.array([q2] + [forms["left-multiplied"][1]] * (k - 1))
    Q2[-1] *= -1.0
    check_batch_coincident(case, ctx, np.array([q1, q2, g, rq.qmul(g, q1)][:k + 1]))
    for name in BATCH:
        fn = getattr(M, name)
        vforms.invariant(ctx, name + "[batch]", lambda x, y: fn(x, y), [np.array([rq.refR(x) for x in Q1]), np.array([rq.refR(x) for x in Q2])] if name in MATRIX else [Q1.copy(), Q2.copy()],
                        lists=False, layouts=True, objects=True, tol=1e-7 if name in ("qcip", "qad") else 1e-12,
                        clause="the same values in a read-only array, a strided view or one of the library's own array objects give the same distance")
    for name in BATCH:
        fn = getattr(M, name)
        r = name + "[batch]"
        if name in MATRIX:
            out = call(lambda: fn(np.array([rq.refR(x) for x in Q1]), np.array([rq.refR(x) for x in Q2])))
        else:
            out = call(lambda: fn(Q1.copy(), Q2.copy()))
        if ctx.returned(out, route=r):
            d = np.asarray(out.value)
            if ctx.ok("batch result has one distance per row", d.shape == (k,) and np.isrealobj(d) and bool(np.all(np.isfinite(d))), {"shape": list(d.shape)}, route=r):
                ctx.le("every row equals the closed form", np.abs(d - CLOSED[name](t)).max(), tol_for(name, t), {"t": t, "d": d}, route=r)


def check_batch_coincident(case, ctx, Q1):
    """N-row inputs whose rows are the same rotation: every distance is 0 (never NaN), also against the negated rows"""
    from ahrs.utils import metrics as M
    for name in BATCH:
        fn = getattr(M, name)
        r = name + "[batch]"
        A = np.array([rq.refR(x) for x in Q1]) if name in MATRIX else Q1
        for lab, B in (("same rows", A.copy()),) + ((("negated rows", -A),) if name not in MATRIX else ()):
            out = call(lambda: np.asarray(fn(A.copy(), B.copy()), float))
            if ctx.returned(out, route=r):
                d = out.value
                ok = d.shape == (len(Q1),) and bool(np.all(np.isfinite(d)))
                if ctx.ok("distances between coincident rows are finite numbers", ok, {"d": d, "rows": lab}, route=r):
                    ctx.le("distance between coincident rows is 0", float(np.abs(d).max()), 1e-7 if name in ("qcip", "qad") else 1e-14, {"rows": lab, "d": d}, route=r)


def check_triple(case, ctx):
    from ahrs.utils import metrics as M
    a, b, c = case.p["a"], case.p["b"], case.p["c"]
    for name in TRIANGLE:
        fn = getattr(M, name)
        if name in MATRIX:
            A, B, C = rq.refR(a), rq.refR(b), rq.refR(c)
        else:
            A, B, C = a, b, c
        out = call(lambda: (float(fn(A.copy(), C.copy())), float(fn(A.copy(), B.copy())), float(fn(B.copy(), C.copy()))))
        if ctx.returned(out, route=name):
            ac, ab, bc = out.value
            ctx.le("triangle inequality d(a,c) <= d(a,b) + d(b,c)", ac - ab - bc, 1e-7 if name in ("qcip", "qad") else 1e-12, {"ac": ac, "ab": ab, "bc": bc}, route=name)


def check_long(case, ctx):
    """A long N-row call: the same closed forms, and resources that grow with N, not N^2 (traced peak memory below 4 kB per row: a quadratic
    intermediate would need 3 GB at N = 20 000 and a MemoryError on an ordinary machine for a ten-minute recording)."""
    import tracemalloc
    from ahrs.utils import metrics as M
    N, t = int(case.p["N"]), float(case.p["t"])
    r_ = np.random.Generator(np.random.PCG64(int(case.p["seed"])))
    Q1 = r_.standard_normal((N, 4))
    Q1 /= np.linalg.norm(Q1, axis=1)[:, None]
    ax = r_.standard_normal((N, 3))
    ax /= np.linalg.norm(ax, axis=1)[:, None]
    d = np.c_[np.full(N, np.cos(t / 2)), ax * np.sin(t / 2)]
    Q2 = np.array([Q1[:, 0] * d[:, 0] - Q1[:, 1] * d[:, 1] - Q1[:, 2] * d[:, 2] - Q1[:, 3] * d[:, 3],
                   Q1[:, 0] * d[:, 1] + Q1[:, 1] * d[:, 0] + Q1[:, 2] * d[:, 3] - Q1[:, 3] * d[:, 2],
                   Q1[:, 0] * d[:, 2] - Q1[:, 1] * d[:, 3] + Q1[:, 2] * d[:, 0] + Q1[:, 3] * d[:, 1],
                   Q1[:, 0] * d[:, 3] + Q1[:, 1] * d[:, 2] - Q1[:, 2] * d[:, 1] + Q1[:, 3] * d[:, 0]]).T
    closed = {name: float(CLOSED[name](t)) for name in ("qdist", "qeip", "qcip", "qad")}       # t below pi: the closed forms in the relative angle
    for name in ("qdist", "qeip", "qcip", "qad"):
        fn = getattr(M, name)
        r = name + "[batch]"
        tracemalloc.start()
        out = call(lambda: np.asarray(fn(Q1.copy(), Q2.copy()), float))
        peak = tracemalloc.get_traced_memory()[1]
        tracemalloc.stop()
        if not ctx.returned(out, clause="no-exception[%d rows]" % N, route=r):
            continue
        if ctx.ok("a long N-row call returns one distance per row", out.value.shape == (N,), {"shape": list(out.value.shape), "N": N}, route=r):
            ctx.le("distances of a long N-row call equal the closed form of the relative angle", float(np.abs(out.value - closed[name]).max()), 1e-7 if name in ("qcip", "qad") else 1e-12,
                   {"N": N, "t": t}, route=r)
        ctx.le("traced peak memory of an N-row call stays below 4 kB per row (linear in N)", peak / float(N), 4096.0, {"N": N, "peak_bytes": int(peak)}, route=r)


def check(case, ctx):
    {"pair": check_pair, "triple": check_triple, "whole": check_whole, "long": check_long}[case.route](case, ctx)
