"""C19 - public functions never modify the caller's arrays and are repeatable.

Argument-bytes monitor over a registry of public call specifications: every
ndarray handed to the library (directly, as a view, aliased, or inside a
list/tuple/keyword) is byte-compared before and after the call; then the same
call on the same objects and on pristine copies must return equal results.
A detected mutation is re-run with write-protected arrays to name the line."""
import numpy as np

from .. import gens
from ..core import Case, call
from ..ref import quat as rq

PROP = "C19"
LEVEL = "exploration"
SHARDS = {"quick": 4, "thorough": 16}
THOROUGH_DEPTH = 20      # thorough tier = this many times the base thorough budget (VERIF_DEPTH overrides)
FORMS = ["fresh", "view", "aliased", "float32-free"]
REGIONS = {"form:fresh": 300, "form:view": 300, "form:aliased": 300, "form:objects": 300, "form:readonly": 300, "form:nan-marked": 300, "form:fortran": 300}
THOROUGH_QUOTA_MULT = 4


# ----------------------------------------------------------------------------- argument factories (plain numpy, no ahrs objects)
class A:
    def __init__(self, rng):
        self.rng = rng

    def q(self, n=None):            # non-normalised quaternion(s)
        return self.rng.standard_normal(4 if n is None else (n, 4)) * 3.0

    def qu(self, n=None):           # unit quaternion(s)
        x = self.q(n)
        return x / np.linalg.norm(x, axis=-1, keepdims=True)

    def v(self, n=None, s=5.0):
        return self.rng.standard_normal(3 if n is None else (n, 3)) * s

    def ang(self, n=None, deg=False):
        x = self.rng.uniform(-1.2, 1.2, 3 if n is None else (n, 3))
        return np.degrees(x) if deg else x

    def R(self, n=None):
        if n is None:
            return rq.refR(self.qu())
        return np.array([rq.refR(x) for x in self.qu(n)])

    def am(self, n=None):
        a = self.v(n)
        m = self.v(n, 30.0) + np.cross(a, [1.0, 2.0, 3.0])
        return a, m

    def t(self):
        return np.sort(np.r_[0.0, self.rng.uniform(0, 1, 4), 1.0])


def specs():
    """name -> (callable taking positional arrays, factory(A) -> list of arguments).  Only parameters documented as arrays."""
    import ahrs
    from ahrs.common import frames, mathfuncs
    from ahrs.common import orientation as o
    from ahrs.common.dcm import DCM
    from ahrs.common.quaternion import Quaternion, QuaternionArray
    from ahrs.common.quaternion import slerp as qslerp
    from ahrs.utils import metrics as M
    F = ahrs.filters
    S = {}

    def add(name, fn, fac):
        S[name] = (fn, fac)
    # orientation free functions
    add("orientation.q_conj", o.q_conj, lambda a: [a.q()])
    add("orientation.q_norm", o.q_norm, lambda a: [a.q()])
    add("orientation.q_prod", o.q_prod, lambda a: [a.q(), a.q()])
    add("orientation.q_mult_L", o.q_mult_L, lambda a: [a.q()])
    add("orientation.q_mult_R", o.q_mult_R, lambda a: [a.q()])
    add("orientation.q_rot", o.q_rot, lambda a: [a.qu(), a.v()])
    add("orientation.axang2quat", lambda ax: o.axang2quat(ax, 0.3), lambda a: [a.v()])
    add("orientation.axang2quat[deg]", lambda ax: o.axang2quat(ax, 30.0, rad=False), lambda a: [a.v()])
    add("orientation.quat2axang", o.quat2axang, lambda a: [a.q()])
    add("orientation.q_correct", o.q_correct, lambda a: [a.qu(6) * np.array([1, -1, -1, 1, 1, -1.0])[:, None]])
    add("orientation.q2R", o.q2R, lambda a: [a.q()])
    add("orientation.q2R[v2]", lambda q: o.q2R(q, version=2), lambda a: [a.q()])
    add("orientation.q2R[batch]", o.q2R, lambda a: [a.q(4)])
    add("orientation.q2euler", o.q2euler, lambda a: [a.qu()])
    add("orientation.dcm2quat", o.dcm2quat, lambda a: [a.R()])
    add("orientation.rpy2q", o.rpy2q, lambda a: [a.ang()])
    add("orientation.rpy2q[in_deg]", lambda x: o.rpy2q(x, in_deg=True), lambda a: [a.ang(deg=True)])
    add("orientation.rpy2q[batch,in_deg]", lambda x: o.rpy2q(x, in_deg=True), lambda a: [a.ang(4, deg=True)])
    add("orientation.cardan2q[in_deg]", lambda x: o.cardan2q(x, in_deg=True), lambda a: [a.ang(deg=True)])
    add("orientation.q2rpy", o.q2rpy, lambda a: [a.qu()])
    add("orientation.q2rpy[in_deg]", lambda q: o.q2rpy(q, in_deg=True), lambda a: [a.qu()])
    add("orientation.ecompass", o.ecompass, lambda a: list(a.am()))
    add("orientation.ecompass[NED,quaternion]", lambda x, y: o.ecompass(x, y, frame="NED", representation="quaternion"), lambda a: list(a.am()))
    add("orientation.am2DCM", o.am2DCM, lambda a: list(a.am()))
    add("orientation.am2q", o.am2q, lambda a: list(a.am()))
    add("orientation.acc2q", o.acc2q, lambda a: [a.v()])
    add("orientation.am2angles", o.am2angles, lambda a: list(a.am()))
    add("orientation.am2angles[batch]", o.am2angles, lambda a: list(a.am(4)))
    add("orientation.am2angles[in_deg]", lambda x, y: o.am2angles(x, y, in_deg=True), lambda a: list(a.am(3)))
    add("orientation.slerp", o.slerp, lambda a: [a.qu(), -a.qu(), a.t()])
    for nm in ("chiaverini", "hughes", "sarabandi", "itzhack", "shepperd"):
        add("orientation." + nm, getattr(o, nm), lambda a: [a.R()])
    add("orientation.chiaverini[batch]", o.chiaverini, lambda a: [a.R(3)])
    add("orientation.hughes[batch]", o.hughes, lambda a: [a.R(3)])
    add("orientation.q2cardan", o.q2cardan, lambda a: [a.qu()])
    # module-level helpers of the filter / utility modules
    from ahrs.filters import aqua as aqua_mod
    from ahrs.utils import core as core_mod
    for ratio in (0.0, 0.01, 0.5, 1.0):          # gain boundaries 0 and 1 included
        for t_ in (0.9, 0.0):
            add("aqua.slerp_I[ratio=%g,t=%g]" % (ratio, t_), lambda q, ratio=ratio, t_=t_: aqua_mod.slerp_I(q, ratio, t_), lambda a: [a.q()])
            add("aqua.slerp_I[unit,ratio=%g,t=%g]" % (ratio, t_), lambda q, ratio=ratio, t_=t_: aqua_mod.slerp_I(q, ratio, t_), lambda a: [a.qu()])
    add("core.get_nan_intervals", core_mod.get_nan_intervals, lambda a: [np.where(a.rng.random(12) < 0.4, np.nan, a.rng.standard_normal(12))])
    # quaternion module
    add("quaternion.slerp", qslerp, lambda a: [a.qu(), -a.qu(), a.t()])
    add("Quaternion(q)", lambda q: np.asarray(Quaternion(q)), lambda a: [a.q()])
    add("Quaternion(v3)", lambda q: np.asarray(Quaternion(q)), lambda a: [a.v()])
    add("Quaternion(q,versor=False)", lambda q: np.asarray(Quaternion(q, versor=False)), lambda a: [a.q()])
    add("Quaternion(dcm=)", lambda R: np.asarray(Quaternion(dcm=R)), lambda a: [a.R()])
    add("Quaternion(rpy=)", lambda x: np.asarray(Quaternion(rpy=x)), lambda a: [a.ang()])
    add("Quaternion.product", lambda p, q: Quaternion(p).product(q), lambda a: [a.q(), a.q()])
    add("Quaternion.__mul__", lambda p, q: np.asarray(Quaternion(p) * q), lambda a: [a.q(), a.q()])
    add("Quaternion.rotate", lambda p, v: Quaternion(p).rotate(v), lambda a: [a.q(), a.v()])
    add("Quaternion.rotate[3xN]", lambda p, v: Quaternion(p).rotate(v), lambda a: [a.q(), a.v(4).T.copy()])
    add("Quaternion.__add__", lambda p, q: np.asarray(Quaternion(p) + q), lambda a: [a.q(), a.q()])
    add("Quaternion.__sub__", lambda p, q: np.asarray(Quaternion(p) - q), lambda a: [a.q(), a.q()])
    add("Quaternion.from_DCM", lambda R: Quaternion().from_DCM(R), lambda a: [a.R()])
    add("Quaternion.from_rpy", lambda x: Quaternion().from_rpy(x), lambda a: [a.ang()])
    add("Quaternion.from_angles", lambda x: Quaternion().from_angles(x), lambda a: [a.ang()])
    add("Quaternion.ode", lambda q, w: Quaternion(q).ode(w), lambda a: [a.q(), a.v()])
    add("Quaternion.to_DCM/to_angles/to_axang", lambda q: (Quaternion(q).to_DCM(), Quaternion(q).to_angles(), Quaternion(q).to_axang()[0]), lambda a: [a.q()])
    add("QuaternionArray(Q)", lambda Q: np.asarray(QuaternionArray(Q)), lambda a: [a.q(5)])
    add("QuaternionArray(V3)", lambda Q: np.asarray(QuaternionArray(Q)), lambda a: [a.v(5)])
    add("QuaternionArray(rpy=)", lambda x: np.asarray(QuaternionArray(rpy=x)), lambda a: [a.ang(4)])
    add("QuaternionArray(DCM=)", lambda x: np.asarray(QuaternionArray(DCM=x)), lambda a: [a.R(4)])
    add("QuaternionArray(DCM=,hughes)", lambda x: np.asarray(QuaternionArray(DCM=x, method="hughes")), lambda a: [a.R(4)])
    add("QuaternionArray.rotate_by", lambda Q, q: QuaternionArray(Q).rotate_by(q), lambda a: [a.q(5), a.q()])
    add("QuaternionArray.average[weights]", lambda Q, w: QuaternionArray(Q).average(weights=w), lambda a: [a.qu(6), a.rng.uniform(0.1, 2, 6)])
    add("QuaternionArray.to_DCM/to_angles/conjugate", lambda Q: (QuaternionArray(Q).to_DCM(), QuaternionArray(Q).to_angles(), QuaternionArray(Q).conjugate()), lambda a: [a.q(4)])
    add("QuaternionArray.angular_velocities", lambda Q: QuaternionArray(Q).angular_velocities(0.01), lambda a: [a.qu(6)])
    add("QuaternionArray.slerp_nan[inplace=False]", lambda Q: QuaternionArray(Q).slerp_nan(inplace=False), lambda a: [np.vstack([a.qu(2), np.full((1, 4), np.nan), a.qu(2)])])
    # DCM
    add("DCM(R)", lambda R: np.asarray(DCM(R)), lambda a: [a.R()])
    add("DCM(q=)", lambda q: np.asarray(DCM(q=q)), lambda a: [a.q()])
    add("DCM(rpy=)", lambda x: np.asarray(DCM(rpy=list(x))), lambda a: [a.ang()])
    add("DCM(axang=)", lambda ax: np.asarray(DCM(axang=(ax, 0.4))), lambda a: [a.v()])
    from ahrs.common.dcm import rotation, rot_seq
    for lab, ang in (("null angle", 0.0), ("whole turn", 2 * np.pi), ("generic", 0.7)):      # trivial angles take their own (early-return) paths
        add("dcm.rotation[%s]" % lab, lambda x, ang=ang: rotation("z", ang + 0.0 * x[0]), lambda a: [a.v()])
        add("dcm.rot_seq[%s]" % lab, lambda x, ang=ang: rot_seq("zyx", x * 0.0 + np.array([ang, 0.0, ang])), lambda a: [a.ang()])
        add("DCM(x=,z=)[%s]" % lab, lambda x, ang=ang: np.asarray(DCM(x=ang + 0.0 * x[0], z=0.0)), lambda a: [a.v()])
    add("DCM.from_quaternion", lambda q: DCM().from_quaternion(q), lambda a: [a.q()])
    add("DCM.from_quaternion[batch]", lambda q: DCM().from_quaternion(q), lambda a: [a.q(4)])
    add("DCM.from_axisangle", lambda ax: DCM().from_axisangle(ax, 0.4), lambda a: [a.v()])
    add("DCM.to_quaternion/log/to_axisangle/to_rpy", lambda R: (DCM(R).to_quaternion(), DCM(R).log, DCM(R).to_axisangle()[0], DCM(R).to_rpy()), lambda a: [a.R()])
    add("DCM.ode", lambda R, w: DCM(R).ode(w), lambda a: [a.R(), a.v()])
    # metrics
    for nm in ("chordal", "identity_deviation", "angular_distance"):
        add("metrics." + nm, getattr(M, nm), lambda a: [a.R(), a.R()])
    add("metrics.chordal[batch]", M.chordal, lambda a: [a.R(3), a.R(3)])
    for nm in ("qdist", "qeip", "qcip", "qad"):
        add("metrics." + nm, getattr(M, nm), lambda a: [a.q(), a.q()])
        add("metrics." + nm + "[batch]", getattr(M, nm), lambda a: [a.q(3), a.q(3)])
    add("metrics.euclidean", M.euclidean, lambda a: [a.v(), a.v()])
    add("metrics.rmse", M.rmse, lambda a: [a.v(), a.v()])
    add("metrics.rmse_matrices", M.rmse_matrices, lambda a: [a.R(3), a.R(3)])
    # frames / mathfuncs
    add("frames.ned2enu", frames.ned2enu, lambda a: [a.v()])
    add("frames.enu2ned[batch]", frames.enu2ned, lambda a: [a.v(4)])
    add("mathfuncs.skew", mathfuncs.skew, lambda a: [a.v()])
    add("mathfuncs.cosd/sind", lambda x: (mathfuncs.cosd(x), mathfuncs.sind(x)), lambda a: [a.v()])
    # single-frame estimators
    add("Tilt", lambda x, y: F.Tilt(x, y).Q, lambda a: list(a.am(5)))
    add("Tilt.estimate", lambda x, y: F.Tilt().estimate(x, y), lambda a: list(a.am()))
    add("Tilt.estimate[rotmat]", lambda x, y: F.Tilt().estimate(x, y, "rotmat"), lambda a: list(a.am()))
    add("SAAM", lambda x, y: F.SAAM(x, y).Q, lambda a: list(a.am(5)))
    add("SAAM.estimate", lambda x, y: F.SAAM().estimate(x, y), lambda a: list(a.am()))
    add("FAMC", lambda x, y: F.FAMC(x, y).Q, lambda a: list(a.am(5)))
    add("FAMC.estimate", lambda x, y: F.FAMC().estimate(x, y), lambda a: list(a.am()))
    add("FQA", lambda x, y: F.FQA(x, y).Q, lambda a: list(a.am(5)))
    add("FQA.estimate", lambda x, y: F.FQA().estimate(x, y), lambda a: list(a.am()))
    add("FQA(mag_ref=)", lambda x, y, r: F.FQA(x, y, mag_ref=r).Q, lambda a: list(a.am(5)) + [a.v()])
    add("QUEST", lambda x, y: F.QUEST(x, y).Q, lambda a: list(a.am(5)))
    add("QUEST.estimate", lambda x, y: F.QUEST().estimate(x, y), lambda a: list(a.am()))
    add("QUEST(weights=)", lambda x, y, w: F.QUEST(x, y, weights=w).Q, lambda a: list(a.am(5)) + [np.array([0.3, 0.9])])
    add("Davenport", lambda x, y: F.Davenport(x, y).Q, lambda a: list(a.am(5)))
    add("Davenport.estimate", lambda x, y: F.Davenport().estimate(x, y), lambda a: list(a.am()))
    add("Davenport(weights=)", lambda x, y, w: F.Davenport(x, y, weights=w).Q, lambda a: list(a.am(5)) + [np.array([0.3, 0.9])])
    add("FLAE", lambda x, y: F.FLAE(x, y).Q, lambda a: list(a.am(5)))
    add("FLAE.estimate", lambda x, y: F.FLAE().estimate(x, y), lambda a: list(a.am()))
    add("FLAE(weights=)", lambda x, y, w: F.FLAE(x, y, weights=w).Q, lambda a: list(a.am(5)) + [np.array([0.3, 0.9])])
    add("OLEQ", lambda x, y: F.OLEQ(x, y).Q, lambda a: list(a.am(5)))
    add("OLEQ(weights=)", lambda x, y, w: F.OLEQ(x, y, weights=w).Q, lambda a: list(a.am(5)) + [np.array([0.3, 0.9])])
    add("OLEQ(magnetic_ref=)", lambda x, y, r: F.OLEQ(x, y, magnetic_ref=r).Q, lambda a: list(a.am(5)) + [a.v()])
    add("OLEQ.estimate", lambda x, y: F.OLEQ().estimate(x, y), lambda a: list(a.am()))
    add("TRIAD", lambda x, y: F.TRIAD(x, y).A, lambda a: list(a.am(5)))
    add("TRIAD.estimate", lambda x, y: F.TRIAD().estimate(x, y), lambda a: list(a.am()))
    add("TRIAD(v1=,v2=)", lambda x, y, v1, v2: F.TRIAD(x, y, v1, v2).A, lambda a: list(a.am(5)) + [a.v(), a.v()])
    add("AQUA", lambda x, y: F.AQUA(x, y).Q, lambda a: list(a.am(5)))
    add("AQUA.estimate", lambda x, y: F.AQUA().estimate(x, y), lambda a: list(a.am()))
    add("AQUA.init_q", lambda x, y: F.AQUA().init_q(x, y), lambda a: list(a.am()))
    # recursive filters: constructors and update steps
    gam = lambda a: [a.v(6, 0.1)] + list(a.am(6))      # noqa: E731
    ga = lambda a: [a.v(6, 0.1), a.v(6)]               # noqa: E731
    qgam = lambda a: [a.qu(), a.v(s=0.1)] + list(a.am())   # noqa: E731
    qga = lambda a: [a.qu(), a.v(s=0.1), a.v()]        # noqa: E731
    add("AQUA[MARG]", lambda g, x, y: F.AQUA(x, y, g).Q, gam)
    add("AQUA(q0=)", lambda g, x, y, q0: F.AQUA(x, y, g, q0=q0).Q, lambda a: gam(a) + [a.qu()])
    add("AQUA.updateMARG", lambda q, g, x, y: F.AQUA().updateMARG(q, g, x, y), qgam)
    add("AQUA.updateIMU", lambda q, g, x: F.AQUA().updateIMU(q, g, x), qga)
    add("Madgwick[MARG]", lambda g, x, y: F.Madgwick(g, x, y).Q, gam)
    add("Madgwick[IMU]", lambda g, x: F.Madgwick(g, x).Q, ga)
    add("Madgwick(q0=)", lambda g, x, q0: F.Madgwick(g, x, q0=q0).Q, lambda a: ga(a) + [a.q()])
    add("Madgwick.updateMARG", lambda q, g, x, y: F.Madgwick().updateMARG(q, g, x, y), qgam)
    add("Madgwick.updateIMU", lambda q, g, x: F.Madgwick().updateIMU(q, g, x), qga)
    add("Mahony[MARG]", lambda g, x, y: F.Mahony(g, x, y).Q, gam)
    add("Mahony[IMU]", lambda g, x: F.Mahony(g, x).Q, ga)
    add("Mahony(q0=,b0=)", lambda g, x, q0, b0: F.Mahony(g, x, q0=q0, b0=b0).Q, lambda a: ga(a) + [a.qu(), a.v(s=0.01)])
    add("Mahony.updateMARG", lambda q, g, x, y: F.Mahony().updateMARG(q, g, x, y), qgam)
    add("Mahony.updateIMU", lambda q, g, x: F.Mahony().updateIMU(q, g, x), qga)
    add("EKF[MARG]", lambda g, x, y: F.EKF(g, x, y).Q, gam)
    add("EKF[IMU]", lambda g, x: F.EKF(g, x).Q, ga)
    add("EKF(P=,q0=,magnetic_ref=,noises=)", lambda g, x, y, P, q0, r, nz: F.EKF(g, x, y, P=P, q0=q0, magnetic_ref=r, noises=nz).Q,
        lambda a: gam(a) + [np.eye(4) * 0.5, a.qu(), a.v(), np.array([0.1, 0.2, 0.3])])
    add("EKF.update[MARG]", lambda q, g, x, y: F.EKF().update(q, g, x, y), qgam)
    add("EKF.update[IMU]", lambda q, g, x: F.EKF().update(q, g, x), qga)
    add("UKF.update", lambda q, g, x: F.UKF().update(q, g, x), qga)
    add("UKF(P=)", lambda g, x, P: F.UKF(g[:3], x[:3], P=P).Q, lambda a: ga(a) + [np.eye(4) * 0.01])
    add("UKF(P=)[singular]", lambda g, x, P: F.UKF(g[:3], x[:3], P=P).Q, lambda a: ga(a) + [np.diag([0.0, 0.01, 0.01, 0.01])])
    add("UKF.compute_sigma_points", lambda q, P: F.UKF().compute_sigma_points(q, P), lambda a: [a.qu(), np.eye(4) * 0.01])
    add("UKF.compute_sigma_points[singular]", lambda q, P: F.UKF().compute_sigma_points(q, P), lambda a: [a.qu(), np.diag([0.0, 0.01, 0.01, 0.01])])
    add("UKF.compute_sigma_points[zero]", lambda q, P: F.UKF().compute_sigma_points(q, P), lambda a: [a.qu(), np.zeros((4, 4))])
    add("Fourati", lambda g, x, y: F.Fourati(g, x, y).Q, gam)
    add("Fourati.update", lambda q, g, x, y: F.Fourati().update(q, g, x, y), qgam)
    add("ROLEQ", lambda g, x, y: F.ROLEQ(g, x, y).Q, gam)
    add("ROLEQ(weights=,magnetic_ref=,q0=)", lambda g, x, y, w, r, q0: F.ROLEQ(g, x, y, weights=w, magnetic_ref=r, q0=q0).Q, lambda a: gam(a) + [np.array([0.4, 1.3]), a.v(), a.qu()])
    add("ROLEQ.update", lambda q, g, x, y: F.ROLEQ().update(q, g, x, y), qgam)
    add("FKF", lambda g, x, y: F.FKF(g, x, y).Q, gam)
    add("Complementary[MARG]", lambda g, x, y: F.Complementary(g, x, y).Q, gam)
    add("Complementary[IMU]", lambda g, x: F.Complementary(g, x).Q, ga)
    add("Complementary(w0=)", lambda g, x, y, w0: F.Complementary(g, x, y, w0=w0).Q, lambda a: gam(a) + [a.ang()])
    add("AngularRate", lambda g: np.asarray(F.AngularRate(g).Q), lambda a: [a.v(6, 0.3)])
    add("AngularRate(q0=)", lambda g, q0: np.asarray(F.AngularRate(g, q0=q0).Q), lambda a: [a.v(6, 0.3), a.q()])
    add("AngularRate[series]", lambda g: np.asarray(F.AngularRate(g, method="series", order=3).Q), lambda a: [a.v(6, 0.3)])
    add("AngularRate[integration]", lambda g: np.asarray(F.AngularRate(g, method="integration").Q), lambda a: [a.v(6, 0.3)])
    add("AngularRate.update", lambda q, g: F.AngularRate().update(q, g), lambda a: [a.qu(), a.v(s=0.3)])
    add("Sensors(quaternions=)", lambda Q: __import__("ahrs").utils.sensors.Sensors(quaternions=Q).accelerometers.shape, lambda a: [a.qu(12)])
    # ---- one object, the same (non in-place) method called three times on it: the results must agree and, for the array classes,
    # the object's own data must stay as it was.  'twice' packs what the dedicated clauses in check() need.
    def twice(make, method, array_class=True):
        def fn(*args):
            ncons = make.__code__.co_argcount
            obj = make(*args[:ncons])
            st0 = obj_state(obj) if array_class else None
            r = []
            for k in range(3):
                np.random.seed(0)
                if k == 0:
                    r.append(method(obj, *args[ncons:]))      # a first call that raises is other properties' business
                    # ... then the object is asked about other inputs (two more, unrelated, argument sets) before it is asked the first question again:
                    # what it answered in between is not part of the question
                    margs = args[ncons:]
                    if margs and all(isinstance(x, np.ndarray) and x.dtype.kind == "f" for x in margs):
                        for alt in ([np.roll(x, 1, axis=-1) * -1.0 for x in margs], [-x + 0.3 * np.roll(x, 2, axis=-1) for x in margs]):
                            try:
                                method(obj, *alt)
                            except Exception:                 # noqa: BLE001 - an in-between question the method refuses is no question at all
                                pass
                    continue
                try:
                    r.append(method(obj, *args[ncons:]))
                except Exception as exc:                      # noqa: BLE001 - a repeat that raises after a first success is a failed repeat
                    r.append(RepeatRaised("%s: %s" % (type(exc).__name__, str(exc)[:100])))
            return SameObject(r, st0, obj_state(obj) if array_class else None)
        return fn

    def same(name, make, method, fac, array_class=True):
        add("[same object] " + name, twice(make, method, array_class), fac)
    Qv = lambda q: Quaternion(q)                        # noqa: E731
    Qn = lambda q: Quaternion(q, versor=False)          # noqa: E731
    Qs = lambda q: Quaternion(q, order="S")             # noqa: E731
    for lab, mk in (("Quaternion", Qv), ("Quaternion[versor=False]", Qn), ("Quaternion[order=S]", Qs)):
        same(lab + ".conjugate/inverse", mk, lambda X: (X.conjugate, X.inverse, X.conj, X.inv), lambda a: [a.q()])
        same(lab + ".exponential/logarithm", mk, lambda X: (X.exponential, X.logarithm, X.exp, X.log), lambda a: [a.q()])
        same(lab + ".to_DCM/to_angles/to_axang", mk, lambda X: (X.to_DCM(), X.to_angles(), X.to_axang()[0], X.to_axang()[1]), lambda a: [a.q()])
        same(lab + ".product", mk, lambda X, p: (X.product(p), X * p), lambda a: [a.q(), a.q()])
        same(lab + ".rotate", mk, lambda X, v: X.rotate(v), lambda a: [a.q(), a.v()])
        same(lab + ".ode", mk, lambda X, w: X.ode(w), lambda a: [a.q(), a.v()])
        same(lab + ".mult_L/mult_R", mk, lambda X: (X.mult_L(), X.mult_R()), lambda a: [a.q()])
        same(lab + ".__pow__", mk, lambda X: (X ** 0.5, X ** -1.0, X ** 2), lambda a: [a.q()])
        same(lab + ".to_list/to_array", mk, lambda X: (np.array(X.to_list(), float), X.to_array()), lambda a: [a.q()])
        same(lab + ".is_*", mk, lambda X: (float(X.is_pure()), float(X.is_real()), float(X.is_versor()), float(X.is_identity())), lambda a: [a.q()])
    QA = lambda Q: QuaternionArray(Q)                   # noqa: E731
    same("QuaternionArray.average", QA, lambda X: X.average(), lambda a: [a.qu(6)])
    same("QuaternionArray.average[weights]", QA, lambda X, w: X.average(weights=w), lambda a: [a.qu(6), a.rng.uniform(0.1, 2, 6)])
    same("QuaternionArray.average[span]", QA, lambda X: X.average(span=(1, 5)), lambda a: [a.qu(6)])
    same("QuaternionArray.to_DCM/to_angles/conjugate", QA, lambda X: (X.to_DCM(), X.to_angles(), X.conjugate(), X.conj()), lambda a: [a.q(5)])
    same("QuaternionArray.angular_velocities", QA, lambda X: X.angular_velocities(0.01), lambda a: [a.qu(6)])
    same("QuaternionArray.rotate_by", QA, lambda X, q: X.rotate_by(q), lambda a: [a.q(5), a.q()])
    same("QuaternionArray.is_*", QA, lambda X: (X.is_pure().astype(float), X.is_real().astype(float), X.is_versor().astype(float), X.is_identity().astype(float)), lambda a: [a.q(5)])
    QAs = lambda Q: QuaternionArray(Q, order="S")       # noqa: E731
    same("QuaternionArray[order=S].to_DCM/to_angles/conjugate", QAs, lambda X: (X.to_DCM(), X.to_angles(), X.conjugate()), lambda a: [a.q(5)])
    same("QuaternionArray[order=S].average", QAs, lambda X: X.average(), lambda a: [a.qu(6)])
    same("QuaternionArray[order=S].angular_velocities", QAs, lambda X: X.angular_velocities(0.01), lambda a: [a.qu(6)])
    same("QuaternionArray[versors=False].rotate_by", lambda Q: QuaternionArray(Q, versors=False), lambda X, q: X.rotate_by(q), lambda a: [a.q(5), a.q()])
    D = lambda R: DCM(R)                                # noqa: E731
    for m_ in ("shepperd", "hughes", "chiaverini", "itzhack", "sarabandi"):
        same("DCM.to_quaternion[%s]" % m_, D, lambda X, m_=m_: X.to_quaternion(m_), lambda a: [a.R()])
    same("DCM.log/to_axisangle/to_rpy/to_angles", D, lambda X: (X.log, X.to_axisangle()[0], X.to_axisangle()[1], X.to_rpy(), X.to_angles()), lambda a: [a.R()])
    same("DCM.inv/I/adj/det/fro", D, lambda X: (X.inv, X.I, X.adj, X.det, X.fro, X.adjugate, X.determinant, X.frobenius), lambda a: [a.R()])
    same("DCM.ode", D, lambda X, w: X.ode(w), lambda a: [a.R(), a.v()])
    for nm, mk_, est in (("Tilt", lambda: F.Tilt(), None), ("SAAM", lambda: F.SAAM(), None), ("FAMC", lambda: F.FAMC(), None), ("FQA", lambda: F.FQA(), None),
                         ("QUEST", lambda: F.QUEST(), None), ("Davenport", lambda: F.Davenport(), None), ("FLAE", lambda: F.FLAE(), None),
                         ("FLAE[symbolic]", lambda: F.FLAE(), lambda X, x, y: X.estimate(x, y, method="symbolic")), ("OLEQ", lambda: F.OLEQ(), None),
                         ("TRIAD", lambda: F.TRIAD(), None), ("TRIAD[quaternion]", lambda: F.TRIAD(), lambda X, x, y: X.estimate(x, y, "quaternion")),
                         ("AQUA", lambda: F.AQUA(), None)):
        same(nm + ".estimate", mk_, est or (lambda X, x, y: X.estimate(x, y)), lambda a: list(a.am()), array_class=False)
    # update steps of the filters that carry no estimate between calls (everything a step needs comes in through its arguments and the constructor's
    # options): the same step asked again of the same object returns the same attitude.  Mahony (integral bias), EKF and UKF (covariance) are stateful
    # by design and not listed.  Accelerometer magnitudes range over several g, so AQUA's adaptive gain is in play.
    for nm, mk_, step, fac in (
            ("Madgwick.updateIMU", lambda: F.Madgwick(), lambda X, q, g, x: X.updateIMU(q, g, x), qga),
            ("Madgwick.updateMARG", lambda: F.Madgwick(), lambda X, q, g, x, y: X.updateMARG(q, g, x, y), qgam),
            ("AQUA.updateIMU", lambda: F.AQUA(), lambda X, q, g, x: X.updateIMU(q, g, x), qga),
            ("AQUA.updateMARG", lambda: F.AQUA(), lambda X, q, g, x, y: X.updateMARG(q, g, x, y), qgam),
            ("AQUA[adaptive].updateIMU", lambda: F.AQUA(adaptive=True), lambda X, q, g, x: X.updateIMU(q, g, x), qga),
            ("AQUA[adaptive].updateMARG", lambda: F.AQUA(adaptive=True), lambda X, q, g, x, y: X.updateMARG(q, g, x, y), qgam),
            ("Fourati.update", lambda: F.Fourati(), lambda X, q, g, x, y: X.update(q, g, x, y), qgam),
            ("ROLEQ.update", lambda: F.ROLEQ(), lambda X, q, g, x, y: X.update(q, g, x, y), qgam),
            ("AngularRate.update", lambda: F.AngularRate(), lambda X, q, g: X.update(q, g), lambda a: [a.qu(), a.v(s=0.1)]),
            ("AngularRate.update[series]", lambda: F.AngularRate(), lambda X, q, g: X.update(q, g, method="series", order=3), lambda a: [a.qu(), a.v(s=0.1)])):
        same(nm, mk_, step, fac, array_class=False)
    _objs = {}

    def sensors_obj():
        if "s" not in _objs:
            _objs["s"] = __import__("ahrs").utils.sensors.Sensors(num_samples=20)
        return _objs["s"]

    def wmm_obj():
        if "w" not in _objs:
            _objs["w"] = wmm_mod.WMM()
        return _objs["w"]
    # ---- objects changed in place after their accessors were read once (q *= -1, Q[1] = ..., D[:] = another rotation): they must answer like a fresh
    # object holding the new values (nothing remembered from the first read)
    def q_acc(X):
        return (X.w, X.x, X.y, X.z, X.v, X.conjugate, X.conj, X.inverse, X.to_array(), np.array(X.to_list(), float), X.mult_L(), X.mult_R(), X.exponential, X.logarithm,
                float(X.is_pure()), float(X.is_real()), float(X.is_versor()), float(X.is_identity()))

    def qa_acc(X):
        return (X.w, X.x, X.y, X.z, X.v, X.conjugate(), X.to_array(), X.is_pure().astype(float), X.is_versor().astype(float), X.is_identity().astype(float))

    def d_acc(X):
        return (X.inv, X.I, X.det, X.fro, X.adj, X.log, X.to_quaternion(), X.to_angles(), X.to_axisangle()[0], X.to_axisangle()[1], np.asarray(X.A, float))

    def changed(make, acc, change, what):
        def fn(*args):
            X = make(args[0])
            acc(X)
            change(X, *args[1:])
            return TwinPair(what, acc(X), acc(make(np.array(np.asarray(X), float))))
        return fn
    Qn_ = lambda q: Quaternion(q, versor=False)          # noqa: E731
    QAn_ = lambda Q_: QuaternionArray(Q_, versors=False)  # noqa: E731
    add("[changed in place] Quaternion *= -1", changed(Qn_, q_acc, lambda X: X.__imul__(-1.0), "q *= -1"), lambda a: [a.q()])
    add("[changed in place] Quaternion /= 2", changed(Qn_, q_acc, lambda X: X.__itruediv__(2.0), "q /= 2"), lambda a: [a.q()])
    add("[changed in place] Quaternion[:] = values", changed(Qn_, q_acc, lambda X, p: X.__setitem__(slice(None), p), "q[:] = p"), lambda a: [a.q(), a.q()])
    add("[changed in place] Quaternion[order=S] *= -1", changed(lambda q: Quaternion(q, versor=False, order="S"), lambda X: q_acc(X)[:10], lambda X: X.__imul__(-1.0), "q *= -1"), lambda a: [a.q()])
    add("[changed in place] QuaternionArray *= -1", changed(QAn_, qa_acc, lambda X: X.__imul__(-1.0), "Q *= -1"), lambda a: [a.q(5)])
    add("[changed in place] QuaternionArray[1] = values", changed(QAn_, qa_acc, lambda X, p: X.__setitem__(1, p), "Q[1] = p"), lambda a: [a.q(5), a.q()])
    add("[changed in place] DCM[:] = another rotation", changed(lambda R_: DCM(np.array(R_, float)), d_acc, lambda X, R2: X.__setitem__(slice(None), R2), "D[:] = R2"), lambda a: [a.R(), a.R()])
    # ---- public worker methods a caller may use on their own (the workloads above only reach them through a constructor or an update step)
    from ahrs.filters import aqua as aqua_mod
    from ahrs.utils import wmm as wmm_mod
    add("AngularRate.integrate_angular_positions", lambda g: F.AngularRate().integrate_angular_positions(g, 0.01), lambda a: [a.v(8, 0.5)])
    add("AngularRate.integrate_angular_positions[quaternion]", lambda g: F.AngularRate().integrate_angular_positions(g, 0.01, "quaternion"), lambda a: [a.v(8, 0.5)])
    add("AngularRate.integrate_angular_positions[rotmat]", lambda g: F.AngularRate().integrate_angular_positions(g, 0.01, "rotmat"), lambda a: [a.v(8, 0.5)])
    add("QuaternionArray.to_array", lambda Q_: ahrs.QuaternionArray(Q_).to_array(), lambda a: [a.q(5)])
    add("AQUA.Omega", lambda x: F.AQUA().Omega(x), lambda a: [a.v()])
    add("aqua.adaptive_gain", lambda x: aqua_mod.adaptive_gain(x), lambda a: [a.v() + np.array([0.0, 0.0, 9.8])])
    add("Complementary.am_estimation", lambda x, y: F.Complementary().am_estimation(x, y), lambda a: list(a.am(5)))
    add("Complementary.am_estimation[acc only]", lambda x: F.Complementary().am_estimation(x), lambda a: [a.v(5)])
    add("EKF.Omega", lambda x: F.EKF().Omega(x), lambda a: [a.v()])
    add("EKF.dfdq", lambda x: F.EKF().dfdq(x, 0.01), lambda a: [a.v(s=0.5)])
    add("EKF.h", lambda q_: F.EKF().h(q_), lambda a: [a.qu()])
    add("EKF.dhdq", lambda q_: F.EKF().dhdq(q_), lambda a: [a.qu()])
    add("EKF.dhdq[refactored]", lambda q_: F.EKF().dhdq(q_, mode="refactored"), lambda a: [a.qu()])
    add("FKF.Omega4", lambda x: F.FKF().Omega4(x), lambda a: [a.v()])
    add("FKF.measurement_quaternion_acc_mag", lambda q_, x, y: F.FKF().measurement_quaternion_acc_mag(q_, x, y), lambda a: [a.qu()] + list(a.am()))
    add("FKF.kalman_update", lambda q1, q2, P_, Phi, Se, Sv: F.FKF().kalman_update(q1, q2, P_, Phi, Se, Sv),
        lambda a: [a.qu(), a.qu(), np.identity(4) * 0.1, np.identity(4) + 0.01 * a.R()[:1, :1] * np.ones((4, 4)), np.identity(4) * 1e-3, np.identity(4) * 1e-2])
    add("OLEQ.WW", lambda x, y: F.OLEQ().WW(x, y), lambda a: [a.v(), a.v()])
    add("ROLEQ.WW", lambda x, y: F.ROLEQ().WW(x, y), lambda a: [a.v(), a.v()])
    add("ROLEQ.oleq", lambda x, y, q_: F.ROLEQ().oleq(x, y, q_), lambda a: list(a.am()) + [a.qu()])
    add("UKF.Omega", lambda x: F.UKF().Omega(x), lambda a: [a.v()])
    add("UKF.set_weights", lambda x: F.UKF().set_weights(), lambda a: [a.v()])
    add("Sensors.angular_velocities", lambda P_: sensors_obj().angular_velocities(P_, 100.0), lambda a: [a.ang(12)])
    # (the method dispatches on the type of its first argument: a QuaternionArray object - the objects form of this spec - is used as it is)
    add("Sensors.angular_velocities[quaternion sequence]", lambda Q_: sensors_obj().angular_velocities(Q_ if type(Q_).__name__ == "QuaternionArray" else __import__("ahrs").QuaternionArray(Q_), 100.0),
        lambda a: [a.qu(12)])
    add("wmm.geodetic2spherical", lambda c: wmm_mod.geodetic2spherical(float(c[0]) * 9.0, float(c[1]) * 18.0, abs(float(c[2]))), lambda a: [a.v()])
    add("WMM.get_properties", lambda x: np.array([float(v) for v in wmm_obj().get_properties(wmm_obj().wmm_filename).values() if isinstance(v, (int, float))]), lambda a: [a.v()])
    # ---- the same call written with keywords (parameter names from the signature): the same arguments, so the same result
    import inspect

    def kwcall(func):
        names_all = list(inspect.signature(func).parameters)

        def fn(*args):
            names = names_all[:len(args)]
            return KwPair(func(*[a.copy() if isinstance(a, np.ndarray) else a for a in args]), func(**{n: (a.copy() if isinstance(a, np.ndarray) else a) for n, a in zip(names, args)}), names)
        return fn
    for nm, func, fac in (("q_conj", o.q_conj, lambda a: [a.q()]), ("q_norm", o.q_norm, lambda a: [a.q()]), ("q_prod", o.q_prod, lambda a: [a.q(), a.q()]),
                          ("q_mult_L", o.q_mult_L, lambda a: [a.q()]), ("q_mult_R", o.q_mult_R, lambda a: [a.q()]), ("q_rot", o.q_rot, lambda a: [a.qu(), a.v()]),
                          ("axang2quat", o.axang2quat, lambda a: [a.v(), 0.3]), ("quat2axang", o.quat2axang, lambda a: [a.qu()]), ("q2R", o.q2R, lambda a: [a.qu()]),
                          ("q2euler", o.q2euler, lambda a: [a.qu()]), ("rpy2q", o.rpy2q, lambda a: [a.ang()]), ("q2rpy", o.q2rpy, lambda a: [a.qu()]),
                          ("ecompass", o.ecompass, lambda a: list(a.am())), ("am2DCM", o.am2DCM, lambda a: list(a.am())), ("am2q", o.am2q, lambda a: list(a.am())),
                          ("am2angles", o.am2angles, lambda a: list(a.am())), ("acc2q", o.acc2q, lambda a: [a.v()]), ("slerp", o.slerp, lambda a: [a.qu(), a.qu(), a.t()]),
                          ("shepperd", o.shepperd, lambda a: [a.R()]), ("chiaverini", o.chiaverini, lambda a: [a.R()]), ("hughes", o.hughes, lambda a: [a.R()]),
                          ("sarabandi", o.sarabandi, lambda a: [a.R()]), ("itzhack", o.itzhack, lambda a: [a.R()]),
                          ("metrics.chordal", M.chordal, lambda a: [a.R(), a.R()]), ("metrics.angular_distance", M.angular_distance, lambda a: [a.R(), a.R()]),
                          ("metrics.identity_deviation", M.identity_deviation, lambda a: [a.R(), a.R()]), ("metrics.qdist", M.qdist, lambda a: [a.q(), a.q()]),
                          ("metrics.qeip", M.qeip, lambda a: [a.q(), a.q()]), ("metrics.qcip", M.qcip, lambda a: [a.q(), a.q()]), ("metrics.qad", M.qad, lambda a: [a.q(), a.q()]),
                          ("metrics.euclidean", M.euclidean, lambda a: [a.v(), a.v()]), ("frames.ned2enu", frames.ned2enu, lambda a: [a.v()]), ("frames.enu2ned", frames.enu2ned, lambda a: [a.v()]),
                          ("quaternion.slerp", qslerp, lambda a: [a.qu(), a.qu(), a.t()]), ("mathfuncs.skew", mathfuncs.skew, lambda a: [a.v()])):
        add("[by keyword] " + nm, kwcall(func), fac)

    # methods called by keyword (TRIAD's docstrings do: estimate(w1=a, w2=m)): a fresh object per call on both sides
    def kwmethod(make, meth):
        names_all = [n for n in inspect.signature(getattr(make(), meth)).parameters]

        def fn(*args):
            names = names_all[:len(args)]
            cp = lambda a: a.copy() if isinstance(a, np.ndarray) else a      # noqa: E731
            np.random.seed(0)          # (OLEQ draws its start vector from the global generator)
            first = getattr(make(), meth)(*[cp(a) for a in args])
            np.random.seed(0)
            return KwPair(first, getattr(make(), meth)(**{n: cp(a) for n, a in zip(names, args)}), names)
        return fn
    for nm, make, meth, fac in (
            ("TRIAD.estimate", lambda: F.TRIAD(), "estimate", lambda a: list(a.am())), ("Davenport.estimate", lambda: F.Davenport(), "estimate", lambda a: list(a.am())),
            ("QUEST.estimate", lambda: F.QUEST(), "estimate", lambda a: list(a.am())), ("FLAE.estimate", lambda: F.FLAE(), "estimate", lambda a: list(a.am())),
            ("SAAM.estimate", lambda: F.SAAM(), "estimate", lambda a: list(a.am())), ("FAMC.estimate", lambda: F.FAMC(), "estimate", lambda a: list(a.am())),
            ("FQA.estimate", lambda: F.FQA(), "estimate", lambda a: list(a.am())), ("Tilt.estimate", lambda: F.Tilt(), "estimate", lambda a: list(a.am())),
            ("AQUA.estimate", lambda: F.AQUA(), "estimate", lambda a: list(a.am())), ("AQUA.init_q", lambda: F.AQUA(), "init_q", lambda a: list(a.am())),
            ("OLEQ.estimate", lambda: F.OLEQ(), "estimate", lambda a: list(a.am())),
            ("Madgwick.updateIMU", lambda: F.Madgwick(), "updateIMU", qga), ("Madgwick.updateMARG", lambda: F.Madgwick(), "updateMARG", qgam),
            ("Mahony.updateIMU", lambda: F.Mahony(), "updateIMU", qga), ("Mahony.updateMARG", lambda: F.Mahony(), "updateMARG", qgam),
            ("AQUA.updateIMU", lambda: F.AQUA(), "updateIMU", qga), ("AQUA.updateMARG", lambda: F.AQUA(), "updateMARG", qgam),
            ("EKF.update", lambda: F.EKF(), "update", qgam), ("EKF.update[IMU]", lambda: F.EKF(), "update", qga),
            ("Fourati.update", lambda: F.Fourati(), "update", qgam), ("ROLEQ.update", lambda: F.ROLEQ(), "update", qgam),
            ("UKF.update", lambda: F.UKF(), "update", qga), ("AngularRate.update", lambda: F.AngularRate(), "update", lambda a: [a.qu(), a.v(s=0.1)]),
            ("Quaternion.product", lambda: ahrs.Quaternion([0.5, -0.5, 0.5, 0.5]), "product", lambda a: [a.q()]),
            ("Quaternion.rotate", lambda: ahrs.Quaternion([0.5, -0.5, 0.5, 0.5]), "rotate", lambda a: [a.v()]),
            ("Quaternion.from_rpy", lambda: ahrs.Quaternion(), "from_rpy", lambda a: [a.ang()]),
            ("Quaternion.from_DCM", lambda: ahrs.Quaternion(), "from_DCM", lambda a: [a.R()]),
            ("DCM.from_quaternion", lambda: DCM(), "from_quaternion", lambda a: [a.qu()]),
            ("WMM.magnetic_field", lambda: wmm_mod.WMM(), "magnetic_field", lambda a: [10.0, 20.0, 1.0])):
        def wrap(nm=nm, make=make, meth=meth):
            f_ = kwmethod(make, meth)
            if nm == "WMM.magnetic_field":
                def g_(*args):
                    w1_, w2_ = make(), make()
                    w1_.magnetic_field(*args)
                    w2_.magnetic_field(latitude=args[0], longitude=args[1], height=args[2])
                    return KwPair(np.array([w1_.X, w1_.Y, w1_.Z]), np.array([w2_.X, w2_.Y, w2_.Z]), ["latitude", "longitude", "height"])
                return g_
            return f_
        add("[method by keyword] " + nm, wrap(), fac)
    return S


class KwPair:
    def __init__(self, positional, by_keyword, names):
        self.positional, self.by_keyword, self.names = positional, by_keyword, names


class TwinPair:
    """two objects that must answer alike: (what, answers of the first, answers of the second)"""

    def __init__(self, what, first, second):
        self.what, self.first, self.second = what, first, second


class RepeatRaised:
    def __init__(self, msg):
        self.msg = msg


class SameObject:
    def __init__(self, results, state_before, state_after):
        self.results, self.state_before, self.state_after = results, state_before, state_after


def obj_state(obj):
    """bytes of the data an ndarray-subclass object holds: its own buffer and the plain-array attribute the methods read."""
    out = [np.asarray(obj).tobytes()]
    for at in ("A", "array"):
        if hasattr(obj, at):
            out.append(np.asarray(getattr(obj, at)).tobytes())
    return out


SPEC_NAMES = None
ROUTES = []      # filled lazily: the route list needs ahrs; REQUIRED routes are checked through REGIONS + evaluations instead
PROBES = [("ahrs.common.orientation", f) for f in ("q_mult_L", "q_mult_R", "axang2quat", "quat2axang", "q2R", "rpy2q", "am2angles", "slerp")] + \
         [("ahrs.filters.fqa", "FQA.estimate"), ("ahrs.filters.flae", "FLAE.estimate")]
REQUIRED_PROBES = ["orientation.q_mult_L", "orientation.q_mult_R", "orientation.axang2quat", "orientation.quat2axang", "orientation.q2R", "orientation.rpy2q",
                   "orientation.am2angles", "orientation.slerp", "fqa.FQA.estimate", "flae.FLAE.estimate"]
RULE = ("cases = (call specification out of ~210 public functions / constructors / methods with their array-valued keywords, argument form): fresh C-contiguous "
        "arrays, non-contiguous views of a larger buffer (the buffer is compared too), and the same array passed for two parameters of equal shape; values are "
        "non-normalised quaternions, angles in degrees where a flag says so, raw sensor rows; every spec is driven in every form each run; non-trivial = all")
ASSUMPTIONS = ["only parameters documented as arrays are passed arrays", "explicitly in-place operations (normalize(), inplace=True, remove_jumps()) are exempt and not called",
               "functions documented as random are re-seeded (np.random.seed) before each of the three calls", "equality of repeated results is array_equal with NaN == NaN",
               "'[same object]' specifications build one object and call the same non in-place method three times on it (results compared, and the object's own "
               "array data for Quaternion / QuaternionArray / DCM)"]


def generate(rng, tier, shard, nshards):
    nspec = len(specs())             # generate() runs in the check process, where ahrs is importable
    reps = 3 if tier == "quick" else gens.reps(16, tier)
    k = 0
    for rep in range(reps):
        for idx in range(nspec):
            for form in ("fresh", "view", "aliased", "objects", "readonly", "nan-marked", "fortran"):
                k += 1
                if k % nshards != shard:
                    continue
                yield Case("spec", "form:" + form, index=idx, form=form, seed=int(rng.integers(2**31)))


def nontrivial(case):
    return True


_cache = {}


def flat(r):
    if isinstance(r, TwinPair):
        r = [r.first, r.second]
    if isinstance(r, KwPair):
        r = [r.positional, r.by_keyword]
    if isinstance(r, SameObject):
        r = [x for x in r.results if not isinstance(x, RepeatRaised)]
    if isinstance(r, (tuple, list)):
        return np.concatenate([flat(x) for x in r]) if len(r) else np.zeros(0, complex)
    if r is None:
        return np.zeros(0, complex)
    return np.ravel(np.asarray(r, dtype=complex))


def snapshot(args):
    """bytes of every ndarray argument (and of the buffers behind views)."""
    out = []
    for a in args:
        if isinstance(a, np.ndarray):
            base = a if a.base is None else a.base
            side = tuple(np.asarray(getattr(a, at)).tobytes() for at in ("A", "array") if type(a) is not np.ndarray and hasattr(a, at))
            out.append((a.tobytes(), np.asarray(base).tobytes()) + side)
        else:
            out.append(None)
    return out


def make_forms(args, form, rng):
    if form == "fresh":
        return [a.copy() if isinstance(a, np.ndarray) else a for a in args]
    if form == "readonly":     # arrays the caller has write-protected (a broadcast reference, a memory-mapped log): a function that only reads them must work
        out = []
        for a in args:
            if isinstance(a, np.ndarray):
                b = a.copy()
                b.setflags(write=False)
                out.append(b)
            else:
                out.append(a)
        return out
    if form == "objects":      # quaternion / rotation-matrix shaped arguments handed over as the library's own array objects (same values)
        import ahrs
        from ahrs.common.dcm import DCM
        out, any_ = [], False
        for a in args:
            o_ = None
            if isinstance(a, np.ndarray):
                try:
                    if a.shape == (4,) and np.any(a):
                        # (every other time an object derived by arithmetic from another one: the same values, but not a freshly constructed object)
                        o_ = ahrs.Quaternion(np.array(a, float), versor=False) if float(a[0]) * 1e6 % 2 < 1 else -ahrs.Quaternion(-np.array(a, float), versor=False)
                    elif a.ndim == 2 and a.shape[1] == 4 and a.shape[0] > 0 and np.all(np.isfinite(a)) and np.all(np.any(a != 0, axis=1)):
                        o_ = ahrs.QuaternionArray(np.array(a, float), versors=False)
                    elif a.shape == (3, 3) and np.all(np.isfinite(a)) and np.abs(a @ a.T - np.eye(3)).max() < 1e-9 and abs(np.linalg.det(a) - 1) < 1e-9:
                        o_ = DCM(np.array(a, float))
                except Exception:      # noqa: BLE001
                    o_ = None
            any_ = any_ or o_ is not None
            out.append(o_ if o_ is not None else (a.copy() if isinstance(a, np.ndarray) else a))
        return out if any_ else None
    if form == "fortran":      # recordings held column-major (a channel-major log transposed, np.asfortranarray, pandas .to_numpy()): the same values, another memory order
        out, any_ = [], False
        for a in args:
            if isinstance(a, np.ndarray) and a.ndim >= 2 and a.shape[0] >= 2:
                out.append(np.asfortranarray(a.copy()))
                any_ = True
            else:
                out.append(a.copy() if isinstance(a, np.ndarray) else a)
        return out if any_ else None
    if form == "nan-marked":   # a recording with missing samples marked as NaN (whole rows or single entries): whatever the function makes of them, the markers are the caller's
        r2_ = np.random.Generator(np.random.PCG64(int(sum(float(np.nansum(np.abs(a))) for a in args if isinstance(a, np.ndarray)) * 1e6) % (2 ** 63)))
        out, any_ = [], False
        for a in args:
            if isinstance(a, np.ndarray) and a.ndim >= 2 and a.dtype.kind == "f" and a.shape[0] >= 2:
                b = a.copy()
                b[int(r2_.integers(b.shape[0]))] = np.nan
                if b.shape[0] > 3:
                    b[(int(r2_.integers(b.shape[0])),) + tuple(int(r2_.integers(n)) for n in b.shape[1:])] = np.nan
                out.append(b)
                any_ = True
            else:
                out.append(a.copy() if isinstance(a, np.ndarray) else a)
        return out if any_ else None
    if form == "view":
        out = []
        for a in args:
            if isinstance(a, np.ndarray) and a.ndim >= 1:
                if a.ndim == 1:
                    big = np.full(a.size * 2, 7.25)
                    big[::2] = a
                    out.append(big[::2])
                else:
                    big = np.full(a.shape + (2,), 7.25)
                    big[..., 0] = a
                    out.append(big[..., 0])
            else:
                out.append(a)
        return out
    # aliased: reuse the first array for every later parameter of the same shape
    out = [a.copy() if isinstance(a, np.ndarray) else a for a in args]
    for i in range(len(out)):
        for j in range(i + 1, len(out)):
            if isinstance(out[i], np.ndarray) and isinstance(out[j], np.ndarray) and out[i].shape == out[j].shape:
                out[j] = out[i]
                return out
    return None


def check(case, ctx):
    if "specs" not in _cache:
        _cache["specs"] = specs()
        _cache["names"] = list(_cache["specs"])
    names = _cache["names"]
    idx = int(case.p["index"])
    if idx >= len(names):
        ctx.note("index beyond the registry: skipped")
        return
    name = names[idx]
    fn, fac = _cache["specs"][name]
    rng = np.random.Generator(np.random.PCG64(int(case.p["seed"])))
    base_args = fac(A(rng))
    args = make_forms(base_args, case.p["form"], rng)
    if args is None:
        ctx.note("no two parameters of equal shape: aliased form not applicable" if case.p["form"] == "aliased" else "no multi-row float array argument: nan-marked form not applicable" if case.p["form"] == "nan-marked" else "no multi-row array argument: fortran form not applicable" if case.p["form"] == "fortran" else "no quaternion / rotation-matrix shaped argument: objects form not applicable")
        return
    if case.p["form"] == "objects":
        pristine = [a.copy() if isinstance(a, np.ndarray) else a for a in base_args]
    else:
        pristine = [a.copy() if isinstance(a, np.ndarray) else a for a in args]
    reform = "fresh" if case.p["form"] == "nan-marked" else case.p["form"]      # (pristine already carries the markers)
    before = snapshot(args)

    def run(a):
        np.random.seed(0)
        return fn(*a)
    r1 = call(run, args)
    after = snapshot(args)
    changed = [i for i, (b, c) in enumerate(zip(before, after)) if b is not None and b != c]
    if changed:
        where = None
        prot = make_forms(pristine, "objects", rng) if case.p["form"] == "objects" else [a.copy() if isinstance(a, np.ndarray) else a for a in pristine]
        for a in prot:
            if isinstance(a, np.ndarray):
                a.flags.writeable = False
        d = call(run, prot)
        if not d.ok:
            where = d.where
        i = changed[0]
        ctx.ok("caller's array arguments are byte-identical after the call", False,
               {"argument_index": changed, "before": pristine[i] if pristine[i].size <= 12 else list(pristine[i].shape), "after": args[i] if args[i].size <= 12 else None,
                "write_site": where, "form": case.p["form"]}, route=name)
    else:
        ctx.ok("caller's array arguments are byte-identical after the call", True, route=name)
    if not r1.ok:
        if case.p["form"] == "readonly" and "read-only" in str(r1.exc):
            ctx.ok("write-protected arguments are only read (the call does not fail for want of write access)", False,
                   {"exc": "%s: %s" % (r1.exc_name, str(r1.exc)[:100]), "write_site": r1.where}, route=name)
        else:
            ctx.note("call raised %s (validity is other properties' business): repeatability not evaluated" % r1.exc_name)
        return
    if case.p["form"] == "readonly":
        ctx.ok("write-protected arguments are only read (the call does not fail for want of write access)", True, route=name)
    if isinstance(r1.value, TwinPair):
        tp = r1.value
        f1, f2 = flat(tp.first), flat(tp.second)
        ctx.ok("an object changed in place answers like a fresh object built from its new values", f1.shape == f2.shape and np.array_equal(f1, f2, equal_nan=True),
               {"changed_by": tp.what, "max_diff": float(np.nanmax(np.abs(f1 - f2))) if f1.shape == f2.shape and f1.size else None}, route=name)
    if isinstance(r1.value, KwPair):
        kp = r1.value
        f1, f2 = flat(kp.positional), flat(kp.by_keyword)
        ctx.ok("the call written with keywords (parameter names of the signature) returns what the positional call returns", f1.shape == f2.shape and np.array_equal(f1, f2, equal_nan=True),
               {"names": kp.names, "max_diff": float(np.nanmax(np.abs(f1 - f2))) if f1.shape == f2.shape and f1.size else None}, route=name)
    if isinstance(r1.value, SameObject):
        so = r1.value
        raised = [x.msg for x in so.results if isinstance(x, RepeatRaised)]
        if raised:
            ctx.ok("a method called again on the same object returns the same result", False, {"repeat_raised": raised[0], "form": case.p["form"]}, route=name)
        else:
            f = [flat(x) for x in so.results]
            same_ = all(f[0].shape == x.shape and np.array_equal(f[0], x, equal_nan=True) for x in f[1:])
            ctx.ok("a method called again on the same object returns the same result", same_,
                   {"max_diff": float(max(np.nanmax(np.abs(f[0] - x)) if f[0].shape == x.shape and x.size else np.inf for x in f[1:])), "form": case.p["form"]}, route=name)
        if so.state_before is not None:
            ctx.ok("a method that is not an in-place operation leaves the object's own data byte-identical", so.state_before == so.state_after,
                   {"which": [i for i, (b, c) in enumerate(zip(so.state_before, so.state_after)) if b != c]}, route=name)
    # repeatability: same objects again, then pristine copies
    r2 = call(run, args)
    # a caller may do what it likes with an array it was handed back: overwrite every returned array that is not one of the arguments,
    # then call again with pristine arguments - the answer must still be the first one (no result buffer shared between calls)
    saved = flat(r1.value).copy()
    undo = []
    scribbled = scribble(r1.value, args, undo)
    if scribbled:
        r4 = call(run, make_forms(pristine, reform, rng))
        a4 = flat(r4.value).copy() if r4.ok else None
        for arr_, old_ in undo:        # put the buffers back: a shared one would otherwise poison every later case of this process
            arr_[...] = old_
        if r4.ok:
            ctx.ok("a result overwritten by the caller does not change what the next call returns", a4.shape == saved.shape and np.array_equal(a4, saved, equal_nan=True),
                   {"overwritten_arrays": scribbled, "max_diff": float(np.nanmax(np.abs(a4 - saved))) if a4.shape == saved.shape and a4.size else None}, route=name)
    # pristine arguments in the same memory layout (a strided view and a contiguous copy may legitimately differ in the last bit)
    r3 = call(run, make_forms(pristine, reform, rng))
    for lab, r in (("the same objects", r2), ("pristine copies of the arguments", r3)):
        if not r.ok:
            ctx.ok("second call with %s returns the same result" % lab, False, {"exc": "%s: %s" % (r.exc_name, str(r.exc)[:100])}, route=name)
            continue
        a1, a2 = saved, flat(r.value)
        same = a1.shape == a2.shape and np.array_equal(a1, a2, equal_nan=True)
        ctx.ok("second call with %s returns the same result" % lab, same,
               {"max_diff": float(np.nanmax(np.abs(a1 - a2))) if a1.shape == a2.shape and a1.size else None, "form": case.p["form"]}, route=name)
    # concurrent threads (every third fresh-form case): this call and the same function on a second draw of arguments run in two threads, with
    # thread switches forced inside the library; each must return what it returns alone.  Skipped for functions that draw from NumPy's global
    # generator (detected by re-running under another seed), whose stream the threads would legitimately share
    if case.p["form"] == "fresh" and int(case.p["seed"]) % 3 == 0 and not isinstance(r1.value, (SameObject,)):
        draws = [False]

        def run1(a):
            np.random.seed(1)
            s0 = np.random.get_state()
            v = fn(*a)
            s1 = np.random.get_state()
            draws[0] = not (np.array_equal(s0[1], s1[1]) and s0[2:] == s1[2:])        # re-seeded inside or drawn from: the global stream is in use
            return v
        alt = call(run1, make_forms(pristine, "fresh", rng))
        if alt.ok and not draws[0] and flat(alt.value).shape == saved.shape and np.array_equal(flat(alt.value), saved, equal_nan=True):
            from .. import threads
            args_b = fac(A(np.random.Generator(np.random.PCG64(int(case.p["seed"]) + 1))))
            alone_b = call(run, [a.copy() if isinstance(a, np.ndarray) else a for a in args_b])
            if alone_b.ok:
                outs, ny = threads.run([lambda: fn(*make_forms(pristine, "fresh", rng)), lambda: fn(*[a.copy() if isinstance(a, np.ndarray) else a for a in args_b])],
                                       seed=int(case.p["seed"]))
                for (kind, v), want in zip(outs, (saved, flat(alone_b.value))):
                    if kind != "ok":
                        ctx.ok("a call made from its own thread raises nothing it does not raise alone", False, {"error": v}, route=name)
                        continue
                    got = flat(v)
                    ctx.ok("calls made from two concurrent threads return what each returns alone", got.shape == want.shape and np.array_equal(got, want, equal_nan=True),
                           {"yields_injected": ny, "max_diff": float(np.nanmax(np.abs(got - want))) if got.shape == want.shape and got.size else None}, route=name)
        else:
            ctx.note("result depends on NumPy's global generator: concurrent-thread clause not applicable")


def extra_evidence():
    from .. import threads
    return {"threaded_runs": threads.STATS["runs"], "thread_yields_injected_inside_the_library": threads.STATS["yields"]}


def scribble(val, args, undo):
    """overwrite every writable ndarray inside a result that shares no memory with an argument; returns how many were overwritten
    (undo collects (array, previous content) pairs)"""
    n = 0
    if isinstance(val, SameObject):
        return 0
    if isinstance(val, TwinPair):
        return 0
    if isinstance(val, KwPair):
        return scribble([val.positional, val.by_keyword], args, undo)
    if isinstance(val, (tuple, list)):
        return sum(scribble(v, args, undo) for v in val)
    if isinstance(val, np.ndarray) and val.size and val.dtype.kind in "fiuc":
        try:
            if any(isinstance(a, np.ndarray) and np.shares_memory(val, a) for a in args):
                return 0
            if val.flags.writeable:
                undo.append((val, np.array(val, copy=True)))
                val[...] = 7.125
                for at in ("A", "array"):
                    side = getattr(val, at, None)
                    if isinstance(side, np.ndarray) and side.flags.writeable and type(val) is not np.ndarray:
                        undo.append((side, np.array(side, copy=True)))
                        side[...] = 7.125
                n = 1
        except Exception:      # noqa: BLE001
            return 0
    return n


def _alias_like(pristine, args):
    out = [a.copy() if isinstance(a, np.ndarray) else a for a in pristine]
    for i in range(len(args)):
        for j in range(i + 1, len(args)):
            if args[i] is args[j]:
                out[j] = out[i]
    return out


def static_evidence():
    return {"call_specifications": "registry built in the check process (see per_route_cases for the names exercised)"}
