"""C20 - synthetic sensor data agree with their own ground truth.

Reference-model monitor: ground truth (quaternions / rotations / angular
positions) -> expected sensor rows, and re-integration of the bias-corrected
gyroscope rows back to the trajectory."""
import numpy as np

from .. import gens
from ..core import Case, call
from ..ref import quat as rq

PROP = "C20"
LEVEL = "exploration"
SHARDS = {"quick": 4, "thorough": 16}
THOROUGH_DEPTH = 40      # thorough tier = this many times the base thorough budget (VERIF_DEPTH overrides)
ROUTES = ["Sensors(num_samples=)", "Sensors(quaternions=)"]
REGIONS = {"random:noise-free": 12, "random:noisy": 12, "given:noise-free": 12, "given:noisy": 12}
THOROUGH_QUOTA_MULT = 8
PROBES = [("ahrs.utils.sensors", "Sensors.generate"), ("ahrs.utils.sensors", "Sensors.angular_velocities"), ("ahrs.utils.sensors", "random_angpos"),
          ("ahrs.common.quaternion", "QuaternionArray.angular_velocities"), ("ahrs.common.quaternion", "QuaternionArray.to_DCM")]
REQUIRED_PROBES = ["sensors.Sensors.generate", "sensors.Sensors.angular_velocities", "sensors.random_angpos", "quaternion.QuaternionArray.angular_velocities"]
RULE = ("cases = Sensors(num_samples=N) with N in 10..600 or Sensors(quaternions=Q) with smooth harness-generated trajectories (rate <= 2 rad/s, |pitch| kept "
        "away from gimbal lock), sampling 20..400 Hz, degrees or radians, normalised magnetometer on/off, default or custom reference vectors, each noise "
        "level zero or non-zero (all-zero = noise-free region); the options of the random-trajectory generator (yaw, span, both, neither) on a fixed schedule; one given "
        "trajectory in four (noise-free and noisy alike) drifts by 1e-7..1e-5 rad/s; the module-level random generator is re-seeded per case; non-trivial = all")
ASSUMPTIONS = ["gyr_noise is documented as 'scaled to the units of the gyroscope data': the applied sigma is gyr_noise (deg/s) x DEG2RAD for radian output",
               "re-integration is judged for trajectories turning at most 0.5 rad per sample (bounded rate); recovered angular rates are first order: per step the integrated angle is x = 2 sin(theta/2) instead of theta, so the re-integration budget is sum (2 asin(x/2) - x) + 1e-9 (exact bound, errors add at most)", "noise levels are compared with 6-sigma chi-square bounds",
               "the module-level GENERATOR of ahrs.utils.sensors is replaced by a seeded generator before every case (determinism of the check, not of the library)"]


def smooth_quats(rng, n, dt, slow=False):
    q = [gens.unit(rng)]
    w = gens.axis(rng) * (gens.logu(rng, 0.05, 1.5) if not slow else gens.logu(rng, 1e-7, 1e-5))      # slow: a platform drifting by micro-radians per second
    for _ in range(n - 1):
        w = w + rng.standard_normal(3) * (0.05 if not slow else 0.02 * np.linalg.norm(w))
        w *= min(1.0, 2.0 / np.linalg.norm(w))
        q.append(rq.qnormalize(rq.qmul(q[-1], rq.qexp_pure(w * dt / 2))))
    return np.array(q)


def generate(rng, tier, shard, nshards):
    n = gens.budget(128, tier, nshards, mult=10)
    for i in range(n):
        given = bool(i % 2)
        noisy = bool((i // 2) % 2)
        freq = float(rng.choice([100.0, 100.0, gens.logu(rng, 20, 400)]))
        N = int(rng.integers(10, 601))
        kw = {"in_degrees": bool(rng.integers(2)), "normalized_mag": bool(rng.integers(2))}
        if noisy:
            for k, lo, hi in (("gyr_noise", 1e-3, 5.0), ("acc_noise", 1e-4, 0.5), ("mag_noise", 1e-2, 500.0)):
                kw[k] = gens.logu(rng, lo, hi) if rng.random() < 0.8 else 0.0
            if all(kw[k] == 0.0 for k in ("gyr_noise", "acc_noise", "mag_noise")):
                kw["acc_noise"] = 0.01
            if (i // 4) % 3 == 2:        # per-axis noise levels (arrays), some axes noiseless
                for k, lo, hi in (("gyr_noise", 1e-3, 5.0), ("acc_noise", 1e-4, 0.5), ("mag_noise", 1e-2, 500.0)):
                    arr = np.array([gens.logu(rng, lo, hi) for _ in range(3)])
                    arr[rng.random(3) < 0.4] = 0.0
                    if not np.any(arr):
                        arr[int(rng.integers(3))] = gens.logu(rng, lo, hi)
                    kw[k] = arr
            for k in ("gyr_noise", "acc_noise", "mag_noise"):     # library defaults are part of the space
                if rng.random() < 0.3 and k in kw and np.ndim(kw[k]) == 0:
                    del kw[k]
            N = max(N, 300)
        else:
            kw.update(gyr_noise=0.0, acc_noise=0.0, mag_noise=0.0)
        if rng.random() < 0.4:
            kw["reference_gravitational_vector"] = np.array([0.0, 0.0, gens.logu(rng, 1.0, 20.0)]) if rng.random() < 0.5 else gens.vec3(rng, 1.0, 20.0)
            kw["reference_magnetic_vector"] = gens.vec3(rng, 1e3, 6e4)
        if not given and i % 8 in (0, 2):            # a random trajectory ranging over more than half a turn each way (angles cross +-pi, where q and -q meet)
            kw["span"] = (float(-rng.uniform(np.pi, 2 * np.pi)), float(rng.uniform(np.pi, 2 * np.pi)))
            N = max(N, 250)
        elif not given:        # options of the random-trajectory generator, every combination on a fixed schedule (noise-free and noisy alike)
            combo = (i // 4) % 4
            if combo in (1, 2):
                kw["span"] = (float(-gens.logu(rng, 0.2, 8.0)), float(gens.logu(rng, 0.2, 8.0)))       # narrower and wider than the default half turn each way
            if combo in (0, 1):
                kw["yaw"] = float(rng.uniform(-170, 170)) if (i // 16) % 3 else float(rng.choice([0.0, 90.0, -180.0, 180.0]))
        Q = smooth_quats(rng, N, 1.0 / freq, slow=(i % 16 in (1, 7))) if given else None
        if given and i % 8 in (3, 5):
            # a trajectory read from a log: quaternions rounded to a few decimals (nearly, not exactly, unit) or stored with a common scale
            Q = np.round(Q, int(rng.integers(4, 9))) if i % 8 == 3 else Q * gens.logu(rng, 0.5, 2.0)
        yield Case("Sensors(quaternions=)" if given else "Sensors(num_samples=)", ("given" if given else "random") + (":noisy" if noisy else ":noise-free"),
                   Q=Q, N=N, freq=freq, kw=kw, seed=int(rng.integers(2**31)))


def chi_bounds(n, k=6.0):
    """sigma_hat / sigma for n samples lies within 1 +- k / sqrt(2 n)."""
    e = k / np.sqrt(2.0 * n)
    return 1.0 - e, 1.0 + e


def check(case, ctx):
    import ahrs
    from ahrs.utils import sensors as S
    p = case.p
    r = case.route
    kw = dict(p["kw"])
    S.GENERATOR = np.random.default_rng(int(p["seed"]))
    if p["Q"] is not None:
        # the trajectory as the caller may hold it: row-major, column-major (a (4, N) log transposed, np.asfortranarray, pandas .to_numpy()), a strided view, a list
        lay = int(p["seed"]) % 5
        held = {}

        def as_object():
            held["Q"] = ahrs.QuaternionArray(p["Q"].copy())
            return held["Q"]
        Qin = [lambda: p["Q"].copy(), lambda: np.asfortranarray(p["Q"].copy()), lambda: np.ascontiguousarray(p["Q"].T).T, lambda: np.pad(p["Q"], ((0, 0), (1, 1)))[:, 1:5], as_object][lay]
        out = call(lambda: S.Sensors(quaternions=Qin(), freq=p["freq"], **kw))
        if out.ok and "Q" in held:
            # the trajectory was handed over as the library's own array object; the caller goes on using that object (re-orients it in place for a second,
            # misaligned unit): the data set generated from it must keep describing the trajectory it was generated for
            call(lambda: held["Q"].rotate_by(np.array([0.5, 0.5, -0.5, 0.5]), inplace=True))
    else:
        out = call(lambda: S.Sensors(num_samples=int(p["N"]), freq=p["freq"], **kw))
    if not ctx.returned(out):
        return
    s = out.value
    judge(ctx, s, p, kw)
    # another, unrelated data set built afterwards - with the opposite normalisation option and the same reference-vector arrays, as a caller
    # comparing both settings would - must leave this object's reported references and data as they were
    names = ("reference_magnetic_vector", "reference_magnetic_vector_enu", "reference_gravitational_vector", "magnetometers", "accelerometers", "gyroscopes")
    snap = {n_: np.array(getattr(s, n_), float).tobytes() for n_ in names if getattr(s, n_, None) is not None}
    kw2 = {k_: v_ for k_, v_ in kw.items() if k_ in ("reference_gravitational_vector", "reference_magnetic_vector")}       # the very same array objects
    other = call(lambda: S.Sensors(num_samples=12, normalized_mag=not kw.get("normalized_mag", False), **kw2))
    if ctx.returned(other, clause="no-exception[another data set built afterwards]"):
        changed = [n_ for n_ in snap if np.array(getattr(s, n_), float).tobytes() != snap[n_]]
        ctx.ok("building another data set leaves this one's reported references and data as they were", not changed,
               {"changed": changed, "normalized_mag_here": kw.get("normalized_mag", False), "references_given": sorted(kw2)})
        if changed:      # (keep the rest of this case meaningful)
            return
    # generate() is a public method: calling it again on the same object must produce a fresh, equally consistent data set
    again = call(lambda: s.generate(s.rotations))
    if ctx.returned(again, clause="no-exception[generate() called again]"):
        judge(Tagged(ctx, " [generate() called again]"), s, p, kw)


class Tagged:
    """ctx proxy that appends a tag to every clause name (same oracles, second observation point)."""

    def __init__(self, ctx, tag):
        self.ctx, self.tag = ctx, tag

    def le(self, clause, *a, **k):
        return self.ctx.le(clause + self.tag, *a, **k)

    def ok(self, clause, *a, **k):
        return self.ctx.ok(clause + self.tag, *a, **k)

    def note(self, *a, **k):
        return self.ctx.note(*a, **k)


def judge(ctx, s, p, kw):
    N = int(s.num_samples)
    Q = np.array(np.asarray(s.quaternions), float)
    R = np.array(s.rotations, float)
    ctx.ok("one row per sample in every output", all(np.asarray(getattr(s, a)).shape[0] == N for a in ("gyroscopes", "accelerometers", "magnetometers", "quaternions", "rotations", "ang_pos", "ang_vel")) and (p["Q"] is None or N == len(p["Q"])) and (p["Q"] is not None or N == int(p["N"])))
    if p["Q"] is not None:
        Qg = p["Q"] / np.linalg.norm(p["Q"], axis=1)[:, None]
        d = np.minimum(np.abs(Q - Qg).max(axis=1), np.abs(Q + Qg).max(axis=1)).max()
        ctx.le("ground-truth quaternions are the given ones (normalised)", d, 4e-16)
    ctx.le("quaternions are unit", np.abs(np.linalg.norm(Q, axis=1) - 1).max(), 1e-12)
    if "yaw" in kw:
        ctx.le("yaw= fixes the heading of the whole random trajectory (deg)", float(np.abs(np.degrees(np.array(s.ang_pos, float)[:, 2]) - kw["yaw"]).max()), 1e-9, {"yaw": kw["yaw"]})
    if "span" in kw:
        ap_ = np.array(s.ang_pos, float)
        cols = ap_[:, :2] if "yaw" in kw else ap_
        ctx.ok("span= bounds the random angular positions", bool(cols.min() >= kw["span"][0] - 1e-9 and cols.max() <= kw["span"][1] + 1e-9), {"span": kw["span"], "min": float(cols.min()), "max": float(cols.max())})
    ctx.le("rotations[i] = R(quaternions[i])", max(np.abs(R[i] - rq.refR(Q[i])).max() for i in range(N)), 1e-13)
    ap = np.array(s.ang_pos, float)
    cp = np.abs(np.cos(ap[:, 1]))
    tolang = 1e-12 + 1e-13 / max(cp.min(), 1e-9)
    ctx.le("ang_pos[i] (roll, pitch, yaw) describes the attitude of rotations[i]", max(np.abs(rq.Rz(a[2]) @ rq.Ry(a[1]) @ rq.Rx(a[0]) - R[i]).max() for i, a in enumerate(ap)), tolang)
    g_ref = np.array(s.reference_gravitational_vector, float)
    m_ref = np.array(s.reference_magnetic_vector, float)
    if "reference_magnetic_vector" in kw:
        ctx.ok("custom reference vectors are the ones used", np.array_equal(m_ref, kw["reference_magnetic_vector"]) and np.array_equal(g_ref, kw["reference_gravitational_vector"]))
    acc_exp = np.array([R[i].T @ g_ref for i in range(N)])
    mag_exp = np.array([R[i].T @ m_ref for i in range(N)])
    acc = np.array(s.accelerometers, float)
    mag = np.array(s.magnetometers, float)
    an, mn, gn = (kw.get(k, "default") for k in ("acc_noise", "mag_noise", "gyr_noise"))
    if isinstance(an, str):
        an = float(s.acc_noise)
        ctx.ok("default acc_noise is a positive number", np.isfinite(an) and an > 0)
    if isinstance(mn, str):
        mn = float(s.mag_noise) if s.mag_noise is not None else float("nan")
        ctx.ok("default mag_noise is a positive number", np.isfinite(mn) and mn > 0, {"reported": s.mag_noise})
    if isinstance(gn, str):
        gn = np.asarray(s.gyr_noise, float)
        ctx.ok("default gyr_noise is positive", bool(np.all(np.isfinite(gn)) and np.all(gn > 0)))
    # --- per-axis noise levels given as arrays: each axis is judged on its own (exact where the level is 0)
    def per_axis(name, data, expect, level, scale):
        level = np.asarray(level, float)
        ctx.ok("reported %s_noise is the one requested" % name, np.array_equal(np.asarray(getattr(s, name + "_noise"), float), level), {"reported": getattr(s, name + "_noise"), "requested": level})
        sd_ = (data - expect).std(axis=0)
        lo_, hi_ = chi_bounds(N)
        for ax_ in range(3):
            if level[ax_] == 0.0:
                ctx.le("%s axis with noise level 0 is exact" % name, float(np.abs(data[:, ax_] - expect[:, ax_]).max() / scale), 1e-13, {"axis": ax_})
            else:
                ctx.ok("empirical %s noise of each axis matches its reported level" % name, bool(lo_ <= sd_[ax_] / level[ax_] <= hi_), {"axis": ax_, "empirical": float(sd_[ax_]), "reported": float(level[ax_]), "bounds": [lo_, hi_]})
    if np.ndim(an) == 1:
        per_axis("acc", acc, acc_exp, an, np.linalg.norm(g_ref))
        an = None
    if np.ndim(mn) == 1:
        if not kw.get("normalized_mag"):
            per_axis("mag", mag, mag_exp, mn, np.linalg.norm(m_ref))
        mn = None
    # --- accelerometer
    if an is None:
        pass
    elif an == 0.0:
        ctx.le("acc_noise = 0: accelerometers[i] = R_i^T g_ref exactly", np.abs(acc - acc_exp).max() / np.linalg.norm(g_ref), 1e-13)
        ctx.ok("reported acc_noise is the one requested", float(s.acc_noise) == 0.0, {"reported": float(s.acc_noise)})
    else:
        sd = float((acc - acc_exp).std())
        lo, hi = chi_bounds(3 * N)
        ctx.ok("reported acc_noise is the one requested", float(s.acc_noise) == an, {"reported": float(s.acc_noise), "requested": an})
        ctx.ok("empirical accelerometer noise matches the reported acc_noise", lo <= sd / float(s.acc_noise) <= hi, {"empirical": sd, "reported": float(s.acc_noise), "bounds": [lo, hi]})
    # --- magnetometer
    norm_mag = bool(kw.get("normalized_mag"))
    if mn is None:
        pass
    elif mn == 0.0:
        exp = mag_exp / np.linalg.norm(mag_exp, axis=1, keepdims=True) if norm_mag else mag_exp
        sc = 1.0 if norm_mag else np.linalg.norm(m_ref)
        ctx.ok("reported mag_noise is the one requested (0)", float(s.mag_noise) == 0.0, {"reported": float(s.mag_noise), "requested": 0.0})
        ctx.le("mag_noise = 0: magnetometers[i] = R_i^T m_ref exactly" + (" (normalised)" if norm_mag else ""), np.abs(mag - exp).max() / sc, 1e-13,
               {"reported_mag_noise": float(s.mag_noise)})
    else:
        ctx.ok("reported mag_noise is the one requested", float(s.mag_noise) == mn, {"reported": float(s.mag_noise), "requested": mn})
        if not norm_mag:
            sd = float((mag - mag_exp).std())
            lo, hi = chi_bounds(3 * N)
            ctx.ok("empirical magnetometer noise matches the reported mag_noise", lo <= sd / float(s.mag_noise) <= hi, {"empirical": sd, "reported": float(s.mag_noise), "bounds": [lo, hi]})
    # the two secondary magnetometer outputs (dip-only reference in the north-down plane; the reference in ENU axes) with their own reference vectors
    for suf in ("_nd", "_enu"):
        arr, refv = getattr(s, "magnetometers" + suf, None), getattr(s, "reference_magnetic_vector" + suf, None)
        if arr is None or refv is None:
            ctx.ok("secondary magnetometer output magnetometers%s and its reference exist" % suf, False)
            continue
        arr, refv = np.array(arr, float), np.array(refv, float)
        exp2 = np.array([R[i].T @ refv for i in range(N)])
        if norm_mag:
            exp2 = exp2 / np.linalg.norm(exp2, axis=1, keepdims=True)
        if mn is None:
            pass
        elif mn == 0.0:
            ctx.le("mag_noise = 0: magnetometers%s[i] = R_i^T reference_magnetic_vector%s" % (suf, suf), np.abs(arr - exp2).max() / max(np.abs(exp2).max(), 1e-300), 1e-13,
                   {"reference": refv}, route=None)
        elif not norm_mag:
            sd2 = float((arr - exp2).std())
            lo, hi = chi_bounds(3 * N)
            ctx.ok("empirical noise of magnetometers%s matches the reported mag_noise" % suf, lo <= sd2 / float(s.mag_noise) <= hi, {"empirical": sd2, "reported": float(s.mag_noise), "bounds": [lo, hi]})
    ctx.le("reference_magnetic_vector_enu is the reference vector in ENU axes", np.abs(np.array(s.reference_magnetic_vector_enu, float) - np.array([m_ref[1], m_ref[0], -m_ref[2]])).max(), 0.0)
    if norm_mag:
        ctx.le("normalised magnetometer rows have unit norm", np.abs(np.linalg.norm(mag, axis=1) - 1).max(), 1e-12)
    # --- gyroscope
    unit = 1.0 if kw.get("in_degrees") else np.pi / 180.0           # data units per deg/s
    gyr = np.array(s.gyroscopes, float)
    bias = np.array(s.biases_gyroscopes, float)
    true_rate = np.array(s.ang_vel, float) * (180.0 / np.pi) * unit  # ang_vel is rad/s
    dt = 1.0 / float(s.frequency)
    if np.ndim(gn) == 0 and gn == 0.0:
        sc = max(np.abs(true_rate).max(), 1e-6)
        ctx.le("gyr_noise = 0: gyroscopes - true rate is exactly the reported constant bias", np.abs(gyr - true_rate - bias).max() / sc, 1e-12,
               {"bias": bias, "mean_offset": (gyr - true_rate).mean(axis=0)})
        w = (gyr - bias) / unit * (np.pi / 180.0)                    # rad/s
        # (the bound on the rate and the budget come from the ground-truth attitudes - q and -q being the same attitude - not from the gyroscope data under test)
        turn = np.r_[0.0, [rq.qang(Q[t - 1], Q[t]) for t in range(1, N)]]
        x = 2.0 * np.sin(turn / 2.0)
        q = Q[0].copy()
        err = [0.0]
        budget = [1e-9]
        for t in range(1, N):
            q = rq.qnormalize(rq.qmul(q, rq.qexp_pure(w[t] * dt / 2)))
            err.append(rq.qang(q, Q[t]))
            # exact per-step error of a first-order recovered rate: true angle theta = 2 asin(x/2) vs integrated angle x (errors add at most)
            budget.append(budget[-1] + 1.01 * (turn[t] - x[t]) + 1e-12)
        ratio = float(np.max(np.array(err) / np.array(budget)))
        if turn.max() <= 0.5:
            ctx.le("integrating gyroscopes - bias from the first ground-truth attitude reproduces the trajectory (error / budget)", ratio, 1.0,
                   {"worst_err_rad": float(np.max(err)), "budget_end": float(budget[-1]), "max_x": float(x.max()), "N": N})
        else:
            ctx.note("trajectory turns more than 0.5 rad between samples (unbounded rate for a first-order gyroscope): re-integration not judged")
    else:
        resid = gyr - true_rate - bias
        gnv = np.broadcast_to(np.asarray(gn, float), (3,))
        sd = resid.std(axis=0)
        lo, hi = chi_bounds(N)
        ctx.ok("reported gyr_noise is the one requested", np.array_equal(np.broadcast_to(np.asarray(s.gyr_noise, float), (3,)), gnv), {"reported": s.gyr_noise, "requested": gn})
        nz = gnv > 0
        ctx.ok("empirical gyroscope noise matches gyr_noise scaled to the data units (per axis)", bool(np.all((lo <= sd[nz] / (gnv[nz] * unit)) & (sd[nz] / (gnv[nz] * unit) <= hi))),
               {"empirical": sd, "expected": gnv * unit, "bounds": [lo, hi]})
        if (~nz).any():
            ctx.le("gyroscope axis with noise level 0: data - true rate is exactly the constant bias", float(np.abs(resid[:, ~nz]).max() / max(np.abs(true_rate).max(), 1e-6)), 1e-12, {"axes": np.where(~nz)[0]})
        ctx.le("mean gyroscope offset equals the reported bias (within noise)", float(np.max(np.abs(resid.mean(axis=0)) / (6.0 * gnv * unit / np.sqrt(N) + 1e-9 * max(np.abs(true_rate).max(), 1e-6)))), 1.0)
