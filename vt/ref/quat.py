"""Independent quaternion / SO(3) reference model.  Never imports ahrs.
Convention: scalar-first Hamilton quaternions; refR(q) v = vec(q (0,v) q*)."""
import numpy as np

I3 = np.eye(3)


def qmul(p, q):
    pw, px, py, pz = p
    qw, qx, qy, qz = q
    return np.array([pw * qw - px * qx - py * qy - pz * qz,
                     pw * qx + px * qw + py * qz - pz * qy,
                     pw * qy - px * qz + py * qw + pz * qx,
                     pw * qz + px * qy - py * qx + pz * qw])


def qconj(q):
    q = np.asarray(q, dtype=float)
    return np.array([q[0], -q[1], -q[2], -q[3]])


def qnormalize(q):
    q = np.asarray(q, dtype=float)
    return q / np.linalg.norm(q)


def qinv(q):
    q = np.asarray(q, dtype=float)
    return qconj(q) / float(np.dot(q, q))


def refR(q):
    """Rotation matrix of a (unit) quaternion; columns are vec(q e_i q*).
    Deliberately not the nine-term closed form the library copies six times."""
    q = np.asarray(q, dtype=float)
    qc = qconj(q)
    cols = []
    for i in range(3):
        e = np.zeros(4)
        e[i + 1] = 1.0
        cols.append(qmul(qmul(q, e), qc)[1:])
    return np.array(cols).T


def rotvec_apply(q, v):
    q = np.asarray(q, dtype=float)
    return qmul(qmul(q, np.r_[0.0, v]), qconj(q))


def rodrigues(axis, angle):
    """Rotation matrix from unit axis and angle: I + sin K + (1-cos) K^2."""
    a = np.asarray(axis, dtype=float)
    a = a / np.linalg.norm(a)
    K = np.array([[0, -a[2], a[1]], [a[2], 0, -a[0]], [-a[1], a[0], 0]])
    s, c = np.sin(angle), np.cos(angle)
    # 1-cos via 2 sin^2(x/2): accurate for tiny angles
    omc = 2.0 * np.sin(angle / 2.0) ** 2
    return I3 + s * K + omc * (K @ K)


def axang2q(axis, angle):
    a = np.asarray(axis, dtype=float)
    a = a / np.linalg.norm(a)
    return np.r_[np.cos(angle / 2.0), np.sin(angle / 2.0) * a]


def qexp_pure(v):
    """exp of the pure quaternion (0, v)."""
    v = np.asarray(v, dtype=float)
    t = np.linalg.norm(v)
    if t == 0:
        return np.array([1.0, 0, 0, 0])
    return np.r_[np.cos(t), np.sin(t) * v / t]


def Rx(a):
    c, s = np.cos(a), np.sin(a)
    return np.array([[1, 0, 0], [0, c, -s], [0, s, c]])


def Ry(a):
    c, s = np.cos(a), np.sin(a)
    return np.array([[c, 0, s], [0, 1, 0], [-s, 0, c]])


def Rz(a):
    c, s = np.cos(a), np.sin(a)
    return np.array([[c, -s, 0], [s, c, 0], [0, 0, 1]])


ELEM = {"x": Rx, "y": Ry, "z": Rz}


def rot_angle(R):
    """Rotation angle of R in SO(3), accurate near 0 and pi."""
    R = np.asarray(R, dtype=float)
    s = 0.5 * np.linalg.norm([R[2, 1] - R[1, 2], R[0, 2] - R[2, 0], R[1, 0] - R[0, 1]])
    c = 0.5 * (np.trace(R) - 1.0)
    return float(np.arctan2(s, c))


def ang_RR(R1, R2):
    return rot_angle(np.asarray(R1).T @ np.asarray(R2))


def qang(p, q):
    """Rotation angle between the attitudes of two quaternions (sign-free),
    accurate for small angles: 2 atan2(|p - s q|, |p + s q|)."""
    p = np.asarray(p, dtype=float)
    q = np.asarray(q, dtype=float)
    p = p / np.linalg.norm(p)
    q = q / np.linalg.norm(q)
    if np.dot(p, q) < 0:
        q = -q
    return float(4.0 * np.arctan2(np.linalg.norm(p - q), np.linalg.norm(p + q)))


def qdist_sign(p, q):
    p = np.asarray(p, dtype=float)
    q = np.asarray(q, dtype=float)
    return float(min(np.abs(p - q).max(), np.abs(p + q).max()))


def so3_defect(R):
    """max(|R R^T - I|, |det R - 1|); inf if not a finite real 3x3."""
    R = np.asarray(R)
    if R.shape != (3, 3) or np.iscomplexobj(R) or not np.all(np.isfinite(R)):
        return float("inf")
    return float(max(np.abs(R @ R.T - I3).max(), abs(np.linalg.det(R) - 1.0)))


def vangle(a, b):
    a = np.asarray(a, dtype=float)
    b = np.asarray(b, dtype=float)
    return float(np.arctan2(np.linalg.norm(np.cross(a, b)), np.dot(a, b)))
