"""Independent World Magnetic Model synthesis (reference model for C14/C15).

Shares with ahrs only the three coefficient files.  Schmidt semi-normalised
associated Legendre functions are obtained by differentiating Legendre
polynomials with numpy.polynomial.legendre (no recursion), dP/dphi' is
analytic, and P/cos(phi') is formed with the cos factor cancelled so that the
east component is finite at the poles."""
import math
import os

import numpy as np
from numpy.polynomial import legendre as L

A_KM = 6378.137
B_KM = 6356.7523142
RE_KM = 6371.2
_cache = {}
_leg = {}


def load(path):
    g, h, gd, hd = {}, {}, {}, {}
    with open(path) as fh:
        head = fh.readline().split()
        epoch = float(head[0])
        for line in fh:
            p = line.split()
            if len(p) < 6 or p[0].startswith("9999"):
                continue
            n, m = int(p[0]), int(p[1])
            g[n, m], h[n, m], gd[n, m], hd[n, m] = map(float, p[2:6])
    return epoch, g, h, gd, hd


def model_name(date_dec):
    return "WMM2015" if date_dec < 2020.0 else ("WMM2020" if date_dec < 2025.0 else "WMM2025")


def model_for(date_dec, root):
    name = model_name(date_dec)
    key = (root, name)
    if key not in _cache:
        _cache[key] = load(os.path.join(root, name, "WMM.COF"))
    return name, _cache[key]


def schmidt(n, m):
    return math.sqrt((2.0 if m > 0 else 1.0) * math.factorial(n - m) / math.factorial(n + m))


def _derivs(n):
    if n not in _leg:
        Pn = L.Legendre.basis(n)
        _leg[n] = [Pn] + [Pn.deriv(k) for k in range(1, n + 2)]
    return _leg[n]


def field(lat_deg, lon_deg, h_km, date_dec, root, nmax=12):
    """(X north, Y east, Z down) in nT at geodetic (lat, lon, height above the WGS84 ellipsoid in km), and the model used.
    The secular variation is applied at round(date, 1) - epoch, the documented evaluation grid."""
    name, (epoch, g, h, gd, hd) = model_for(date_dec, root)
    dt = round(date_dec, 1) - epoch
    phi, lam = math.radians(lat_deg), math.radians(lon_deg)
    f = (A_KM - B_KM) / A_KM
    e2 = f * (2 - f)
    Rc = A_KM / math.sqrt(1 - e2 * math.sin(phi) ** 2)
    rho = (Rc + h_km) * math.cos(phi)
    z = (Rc * (1 - e2) + h_km) * math.sin(phi)
    r = math.hypot(rho, z)
    phip = math.atan2(z, rho)
    x, c = math.sin(phip), math.cos(phip)
    if abs(lat_deg) == 90.0:
        x, c = math.copysign(1.0, lat_deg), 0.0
    X = Y = Z = 0.0
    for n in range(1, nmax + 1):
        D = _derivs(n)
        arn = (RE_KM / r) ** (n + 2)
        for m in range(0, n + 1):
            S = schmidt(n, m)
            Dm = D[m](x)
            Dm1 = D[m + 1](x) if m + 1 <= n else 0.0
            P = S * c ** m * Dm
            dP = S * ((-m * c ** (m - 1) * x * Dm if m > 0 else 0.0) + c ** (m + 1) * Dm1)
            PoverC = S * (c ** (m - 1) * Dm) if m > 0 else 0.0
            G = g[n, m] + dt * gd[n, m]
            H = h[n, m] + dt * hd[n, m]
            cm, sm = math.cos(m * lam), math.sin(m * lam)
            X += -arn * (G * cm + H * sm) * dP
            Y += arn * m * (G * sm - H * cm) * PoverC
            Z += -(n + 1) * arn * (G * cm + H * sm) * P
    d = phip - phi
    return np.array([X * math.cos(d) - Z * math.sin(d), Y, X * math.sin(d) + Z * math.cos(d)]), name
