"""Runner: `python -m vt.run Cxx [--tier quick|thorough] [--replay FILE]`.

Parent mode spawns shard children (fresh interpreters importing ahrs from
$AHRS_TREE, default /repo), merges what their monitors observed, classifies
violations against known_findings.json, writes evidence/<id>.json and replays,
prints VIOLATION / KNOWN-FINDING / INCONCLUSIVE lines and exits 0 / 1 / 2.
"""
import argparse
import importlib
import json
import os
import subprocess
import sys
import time
import traceback

import numpy as np

from . import core
from .core import Case, Ctx, VERIF

WORK = os.path.join(VERIF, ".work")
MAX_SAMPLES = 6


def tree():
    return os.path.abspath(os.environ.get("AHRS_TREE", "/repo"))


def load_module(prop):
    return importlib.import_module("vt.props." + prop)


def import_ahrs():
    t = tree()
    if sys.path[0] != t:
        sys.path.insert(0, t)
    import ahrs  # noqa: F401
    f = os.path.abspath(ahrs.__file__)
    if not f.startswith(t + os.sep):
        raise RuntimeError("ahrs imported from %s, not from %s" % (f, t))
    return ahrs


def shard_seed(seed, prop, shard):
    return [int(seed) & 0xFFFFFFFF, int(prop[1:]), int(shard)]


# --------------------------------------------------------------------------
def run_cases(mod, cases, ctx, stats, deadline=None):
    """generate -> check loop shared by child and replay."""
    seen = {}
    for case in cases:
        if deadline is not None and time.time() > deadline:
            stats["truncated"] = True
            break
        ctx.begin(case)
        nv = len(ctx.viols)
        try:
            mod.check(case, ctx)
        except Exception:  # harness error or uncaught error from the code under test
            tb = traceback.format_exc()
            inner = traceback.extract_tb(sys.exc_info()[2])[-1]
            if (os.sep + "ahrs" + os.sep) in inner.filename and "/vt/" not in inner.filename:
                ctx.viols.append(core.Viol(case.route, "uncaught-exception:" + type(sys.exc_info()[1]).__name__,
                                           case.region, 1.0, 0.0, {"traceback": tb[-1500:]}, case))
            else:
                stats.setdefault("harness_errors", []).append({"case": case.to_json(), "traceback": tb[-3000:]})
                if len(stats["harness_errors"]) > 5:
                    break
                continue
        stats["evaluations"] += 1
        stats["routes"][case.route] = stats["routes"].get(case.route, 0) + 1
        stats["regions"][case.region] = stats["regions"].get(case.region, 0) + 1
        for tag in (case.p.get("tags") or []):          # secondary strata a case also belongs to
            stats["regions"][tag] = stats["regions"].get(tag, 0) + 1
        nt = True
        if hasattr(mod, "nontrivial"):
            nt = bool(mod.nontrivial(case))
        if nt:
            stats["digests"].append(int(case.digest(), 16) & 0xFFFFFFFFFFFFFFFF)
        k = (case.route, case.region)
        if seen.get(k, 0) < 1 and len(stats["samples"]) < 40:
            seen[k] = 1
            stats["samples"].append({"route": case.route, "region": case.region, "inputs": core.brief(case.p)})
        # new violations of this case: reproduce each new key once
        for v in ctx.viols[nv:]:
            key = v.key()
            ent = stats["viols"].get(key)
            if ent is None:
                c2 = Ctx()
                c2.begin(case)
                try:
                    mod.check(case, c2)
                except Exception:
                    pass
                rep = any(w.key() == key for w in c2.viols)
                stats["viols"][key] = {"viol": v.to_json(), "case": case.to_json(), "count": 1, "reproduced": rep}
            else:
                ent["count"] += 1
                if not ent["reproduced"]:
                    pass


def new_stats():
    return {"evaluations": 0, "routes": {}, "regions": {}, "digests": [], "samples": [], "viols": {},
            "truncated": False}


def child(args):
    t0 = time.time()
    import_ahrs()
    mod = load_module(args.prop)
    from . import probes
    pr = probes.Probes()
    for spec in getattr(mod, "PROBES", []):
        pr.attach(*spec)
    if hasattr(mod, "setup"):
        mod.setup(pr)
    pr.reach_start()
    apicov = None
    if os.environ.get("VERIF_APICOV"):          # API-surface audit (tools/apicov.py): which ahrs functions did this workload enter?
        import sys as _sys
        apicov = set()
        direct = set()
        root = os.path.realpath(tree())
        # option audit: code object -> {parameter name: default} for every function / method defined under ahrs
        import inspect as _inspect
        defaults = {}
        for _mn, _mod in list(_sys.modules.items()):
            if not _mn.startswith("ahrs") or _mod is None:
                continue
            for _o in list(vars(_mod).values()):
                cands = [_o] if _inspect.isfunction(_o) else ([v for v in vars(_o).values()] if _inspect.isclass(_o) and getattr(_o, "__module__", "").startswith("ahrs") else [])
                for c in cands:
                    f_ = getattr(c, "fget", None) or getattr(c, "__func__", None) or c
                    while hasattr(f_, "__wrapped__"):          # probes wrap the callables they observe
                        f_ = f_.__wrapped__
                    if _inspect.isfunction(f_) and f_.__code__ not in defaults:
                        try:
                            sig = _inspect.signature(f_)
                        except (TypeError, ValueError):
                            continue
                        defaults[f_.__code__] = {n: p.default for n, p in sig.parameters.items() if p.default is not _inspect.Parameter.empty}
        optcov = {}

        def _same(a, b):
            try:
                if a is b:
                    return True
                if isinstance(a, np.ndarray) or isinstance(b, np.ndarray):
                    return False
                return bool(a == b) and type(a) is type(b)
            except Exception:
                return False

        def _prof(frame, event, arg):
            if event == "call":
                code = frame.f_code
                fn = code.co_filename
                if fn.startswith(root):
                    key = "%s:%s" % (os.path.relpath(fn, root), code.co_qualname if hasattr(code, "co_qualname") else code.co_name)
                    apicov.add("%s:%d" % (key, code.co_firstlineno))
                    back = frame.f_back
                    while back is not None and back.f_code.co_filename.endswith(os.path.join("vt", "probes.py")):       # probe wrappers are transparent
                        back = back.f_back
                    if back is not None and not back.f_code.co_filename.startswith(root):
                        direct.add(key)          # called by the workload itself, not from inside the library
                    d = defaults.get(code)
                    if d:
                        loc = frame.f_locals
                        rec = optcov.setdefault(key, {})
                        for n, dv in d.items():
                            if n in loc and not rec.get(n) and not _same(loc[n], dv):
                                rec[n] = True
                            else:
                                rec.setdefault(n, False)
                    if "kwargs" in frame.f_locals or "kw" in frame.f_locals:
                        kws = frame.f_locals.get("kwargs", frame.f_locals.get("kw"))
                        if isinstance(kws, dict):
                            rec = optcov.setdefault(key, {})
                            for n in kws:
                                rec["**" + n] = True
        _sys.setprofile(_prof)
    os.environ.setdefault("VERIF_DEPTH", str(getattr(mod, "THOROUGH_DEPTH", 1)))
    rng = np.random.Generator(np.random.PCG64(shard_seed(args.seed, args.prop, args.shard)))
    ctx = Ctx()
    stats = new_stats()
    deadline = t0 + float(args.time_cap)
    err = None
    try:
        run_cases(mod, mod.generate(rng, args.tier, args.shard, args.nshards), ctx, stats, deadline)
    except Exception:
        err = traceback.format_exc()
    reach = pr.reach_stop()
    out = {
        "shard": args.shard, "wall_s": time.time() - t0,
        "evaluations": stats["evaluations"], "routes": stats["routes"], "regions": stats["regions"],
        "samples": stats["samples"], "truncated": stats["truncated"],
        "harness_errors": stats.get("harness_errors", []) + ([{"traceback": err[-3000:]}] if err else []),
        "clauses": ctx.clauses, "notes": ctx.notes, "route_evals": ctx.route_evals, "route_worst": ctx.route_worst,
        "viols": [dict(v, key=list(k)) for k, v in stats["viols"].items()],
        "probe_calls": pr.counts(), "reach": reach,
        "extra": mod.extra_evidence() if hasattr(mod, "extra_evidence") else {},
    }
    if apicov is not None:
        import sys as _sys
        _sys.setprofile(None)
        os.makedirs(os.path.join(core.VERIF, ".work", "apicov"), exist_ok=True)
        with open(os.path.join(core.VERIF, ".work", "apicov", "%s-%d.json" % (args.prop, args.shard)), "w") as f:
            json.dump(sorted(apicov), f)
        with open(os.path.join(core.VERIF, ".work", "apicov", "opt-%s-%d.json" % (args.prop, args.shard)), "w") as f:
            json.dump(optcov, f)
        with open(os.path.join(core.VERIF, ".work", "apicov", "direct-%s-%d.json" % (args.prop, args.shard)), "w") as f:
            json.dump(sorted(direct), f)
    np.save(args.out + ".npy", np.array(stats["digests"], dtype=np.uint64))
    with open(args.out, "w") as f:
        json.dump(core.enc(out), f)
    return 0


# --------------------------------------------------------------------------
def git_rev(path):
    try:
        r = subprocess.run(["git", "-C", path, "rev-parse", "HEAD"], capture_output=True, text=True, timeout=20)
        d = subprocess.run(["git", "-C", path, "status", "--porcelain", "--untracked-files=no"],
                           capture_output=True, text=True, timeout=20)
        return {"head": r.stdout.strip(), "dirty": bool(d.stdout.strip())}
    except Exception:
        return {"head": "unknown", "dirty": None}


def child_env():
    env = dict(os.environ)
    env["PYTHONPATH"] = tree() + os.pathsep + VERIF
    env["PYTHONDONTWRITEBYTECODE"] = "1"
    env["PYTHONHASHSEED"] = "0"
    env["AHRS_VERIF"] = "1"
    for k in ("OMP_NUM_THREADS", "OPENBLAS_NUM_THREADS", "MKL_NUM_THREADS"):
        env[k] = "1"
    return env


def parent(args):
    t0 = time.time()
    mod = load_module(args.prop)  # only for metadata; ahrs is NOT imported in the parent
    tier = args.tier
    nsh = int(getattr(mod, "SHARDS", {}).get(tier, 1 if tier == "quick" else 16))
    nsh = max(1, min(nsh, os.cpu_count() or 1))
    cap = float(getattr(mod, "TIME_CAP", {}).get(tier, 600 if tier == "quick" else 2400))
    os.makedirs(WORK, exist_ok=True)
    tag = "%s-%s-%d-%d" % (args.prop, tier, os.getpid(), int(t0))
    procs = []
    for s in range(nsh):
        out = os.path.join(WORK, "%s-%d.json" % (tag, s))
        cmd = [sys.executable, "-m", "vt.run", args.prop, "--child", "--tier", tier, "--seed", str(args.seed),
               "--shard", str(s), "--nshards", str(nsh), "--out", out, "--time-cap", str(cap)]
        log = open(out + ".log", "w")
        procs.append((s, out, log, subprocess.Popen(cmd, cwd=VERIF, env=child_env(), stdout=log, stderr=log)))
    parts, inconclusive = [], []
    digests = []
    for s, out, log, p in procs:
        try:
            rc = p.wait(timeout=max(5.0, cap * 3 + 120 - (time.time() - t0)))
        except subprocess.TimeoutExpired:
            p.kill()
            p.wait()
            rc = None
        log.close()
        if rc != 0 or not os.path.exists(out):
            tail = ""
            try:
                tail = open(out + ".log").read()[-1500:]
            except OSError:
                pass
            inconclusive.append("shard %d %s: %s" % (s, "timed out" if rc is None else "exit %s" % rc, tail.strip()[-600:]))
        else:
            with open(out) as f:
                parts.append(core.dec(json.load(f)))
            digests.append(np.load(out + ".npy"))
        for fn in (out, out + ".npy", out + ".log"):
            if os.path.exists(fn):
                os.remove(fn)
    return finish(mod, args, parts, digests, inconclusive, t0, nsh)


def merge_counts(dicts):
    out = {}
    for d in dicts:
        for k, v in d.items():
            out[k] = out.get(k, 0) + v
    return out


def finish(mod, args, parts, digests, inconclusive, t0, nsh):
    prop, tier = args.prop, args.tier
    known = core.load_known()
    routes = merge_counts(p["routes"] for p in parts)
    regions = merge_counts(p["regions"] for p in parts)
    route_evals = merge_counts(p["route_evals"] for p in parts)
    notes = merge_counts(p["notes"] for p in parts)
    probe_calls = merge_counts(p["probe_calls"] for p in parts)
    evaluations = sum(p["evaluations"] for p in parts)
    clauses = {}
    for p in parts:
        for k, (n, ratio, resid, tol) in p["clauses"].items():
            c = clauses.setdefault(k, {"n": 0, "worst_ratio": 0.0, "worst_residual": 0.0, "tol": tol})
            c["n"] += n
            if ratio > c["worst_ratio"] or ratio != ratio:
                c.update(worst_ratio=ratio, worst_residual=resid, tol=tol)
    route_worst = {}
    for p in parts:
        for k, v in p.get("route_worst", {}).items():
            if not (v <= route_worst.get(k, 0.0)):
                route_worst[k] = v
    reach = {}
    for p in parts:
        for fn, (hit, tot, missed) in p["reach"].items():
            r = reach.setdefault(fn, {"lines_hit": set(), "lines_total": tot})
            r["lines_hit"].update(hit)
    reach = {fn: {"lines_hit": len(r["lines_hit"]), "lines_total": r["lines_total"]} for fn, r in sorted(reach.items())}
    distinct = int(len(np.unique(np.concatenate(digests)))) if digests else 0
    harness_errors = [e for p in parts for e in p["harness_errors"]]
    if harness_errors:
        inconclusive.append("harness error: " + harness_errors[0]["traceback"].strip().splitlines()[-1])
    cap = float(getattr(mod, "TIME_CAP", {}).get(args.tier, 600 if args.tier == "quick" else 2400))
    truncated = any(p["truncated"] for p in parts)      # the region / route / probe quotas below decide whether what was explored suffices for a verdict
    # quotas
    mult = 1 if tier == "quick" else int(getattr(mod, "THOROUGH_QUOTA_MULT", 4))
    for reg, q in getattr(mod, "REGIONS", {}).items():
        if regions.get(reg, 0) < q * mult:
            inconclusive.append("region %s: %d cases < quota %d" % (reg, regions.get(reg, 0), q * mult))
    for reg, q in getattr(mod, "REGIONS_FIXED", {}).items():       # enumerated (not sampled) strata: same quota on both tiers
        if regions.get(reg, 0) < q:
            inconclusive.append("region %s: %d cases < quota %d" % (reg, regions.get(reg, 0), q))
    for r in getattr(mod, "ROUTES", []):
        if route_evals.get(r, 0) == 0:
            inconclusive.append("route %s: zero monitor evaluations" % r)
    for name in getattr(mod, "REQUIRED_PROBES", []):
        if probe_calls.get(name, 0) == 0:
            inconclusive.append("probe %s never fired" % name)
    # violations
    merged = {}
    for p in parts:
        for v in p["viols"]:
            k = tuple(v["key"])
            m = merged.get(k)
            if m is None:
                merged[k] = dict(v)
            else:
                m["count"] += v["count"]
                m["reproduced"] = m["reproduced"] or v["reproduced"]
    lines, viol_lines, known_hits, groups = [], [], {}, {}
    scratch_out = bool(os.environ.get("VERIF_NO_EVIDENCE"))   # selftest runs: keep evidence/ and replays/ untouched
    rdir = os.path.join(WORK, "replays-%d" % os.getpid()) if scratch_out else os.path.join(VERIF, "replays")
    os.makedirs(rdir, exist_ok=True)
    for fn in os.listdir(rdir):       # stale witnesses of earlier runs of this property
        if fn.startswith(prop + "-") and fn.endswith(".json"):
            os.remove(os.path.join(rdir, fn))
    unknown = 0
    for k, v in sorted(merged.items()):
        vi = core.Viol(k[0], k[1], k[2], None, None, None)
        e = core.match_known(known, prop, vi)
        if e is not None:
            h = known_hits.setdefault(e["id"] if "id" in e else e["what"], {"what": e["what"], "count": 0, "keys": []})
            h["count"] += v["count"]
            h["keys"].append({"route": k[0], "clause": k[1], "region": k[2], "count": v["count"]})
            continue
        if not v["reproduced"]:
            inconclusive.append("witness did not reproduce: %s / %s / %s" % k)
            continue
        unknown += 1
        import hashlib
        hh = hashlib.sha1(("|".join(k)).encode()).hexdigest()[:10]
        path = os.path.join(rdir, "%s-%s.json" % (prop, hh))
        with open(path, "w") as f:
            json.dump({"property": prop, "tier": tier, "seed": args.seed, "key": list(k), "count": v["count"],
                       "violation": core.enc(v["viol"]), "case": core.enc(v["case"]),
                       "tree": tree()}, f, indent=1)
        g = groups.setdefault((k[0], k[1]), {"path": path, "regions": [], "n": 0, "v": v["viol"]})
        g["regions"].append(k[2])
        g["n"] += v["count"]
    for (r, c), g in sorted(groups.items()):
        viol_lines.append("VIOLATION property=%s replay=%s  # route=%s clause=%s regions=%s n=%d residual=%s tol=%s" % (
            prop, g["path"], r, c, ",".join(g["regions"][:8]), g["n"], g["v"].get("residual"), g["v"].get("tol")))
    if len(viol_lines) > 15:
        more = len(viol_lines) - 15
        viol_lines = viol_lines[:15] + ["# ... and %d more violation classes (see evidence/%s.json and replays/)" % (more, prop)]
    for hid, h in known_hits.items():
        lines.append("KNOWN-FINDING: property=%s %s (matched %d witnesses)" % (prop, h["what"], h["count"]))
    samples = []
    seen = set()
    for p in parts:
        for s in p["samples"]:
            k = (s["route"], s["region"])
            if k not in seen and len(samples) < 24:
                seen.add(k)
                samples.append(s)
    extra = {}
    for p in parts:
        for k, v in (p.get("extra") or {}).items():
            if isinstance(v, (int, float)) and not isinstance(v, bool):
                extra[k] = extra.get(k, 0) + v
            elif isinstance(v, list):
                extra.setdefault(k, [])
                if len(extra[k]) < 20:
                    extra[k].extend(v[:20 - len(extra[k])])
            elif isinstance(v, dict):
                d = extra.setdefault(k, {})
                for kk, vv in v.items():
                    if isinstance(vv, (int, float)) and not isinstance(vv, bool):
                        d[kk] = d.get(kk, 0) + vv
                    else:
                        d.setdefault(kk, vv)
            else:
                extra.setdefault(k, v)
    if hasattr(mod, "static_evidence"):
        extra.update(mod.static_evidence())
    verdict = "violated" if unknown else ("inconclusive" if inconclusive else "held")
    wall = time.time() - t0
    ev = {
        "property_id": prop, "tier": tier, "seed": int(args.seed), "level": getattr(mod, "LEVEL", "exploration"),
        "coverage": {
            "evaluations": int(evaluations), "distinct_nontrivial": distinct,
            "rule": getattr(mod, "RULE", ""), "samples": samples or [{"note": "no case executed"}],
            "oracle_clause_evaluations": int(sum(c["n"] for c in clauses.values())),
            "per_route_cases": dict(sorted(routes.items())), "per_route_clause_evaluations": dict(sorted(route_evals.items())),
            "per_region_cases": dict(sorted(regions.items())),
            "per_route_worst_residual_over_tolerance": {k: (round(v, 6) if v == v and v != float("inf") else repr(v)) for k, v in sorted(route_worst.items())},
            "clauses": {k: clauses[k] for k in sorted(clauses)},
            "probe_calls": dict(sorted(probe_calls.items())), "code_reach": reach,
            "notes": dict(sorted(notes.items())), "known_findings_hit": known_hits,
            "unknown_violation_classes": unknown, "shards": nsh, "inconclusive_reasons": inconclusive,
            "verdict": verdict, "tree": dict(git_rev(tree()), path=tree()),
            "thorough_depth": (max(1.0, float(os.environ.get("VERIF_DEPTH", getattr(mod, "THOROUGH_DEPTH", 1)))) if tier == "thorough" else None),
            "truncated_by_time_cap": bool(truncated), "time_cap_s_per_shard": cap,
            **extra,
        },
        "assumptions": list(getattr(mod, "ASSUMPTIONS", [])),
        "wall_s": round(wall, 2), "violations": unknown,
    }
    edir = os.path.join(WORK, "evidence-%d" % os.getpid()) if scratch_out else os.path.join(VERIF, "evidence")
    os.makedirs(edir, exist_ok=True)
    with open(os.path.join(edir, prop + ".json"), "w") as f:
        json.dump(_jsonable(ev), f, indent=1)
    for ln in lines:
        print(ln)
    for ln in viol_lines:
        print(ln)
    if not unknown and inconclusive:
        for r in inconclusive[:10]:
            print("INCONCLUSIVE property=%s reason=%s" % (prop, r.replace("\n", " ")[:300]))
    if truncated:
        print("NOTE property=%s time cap of %.0f s per shard reached: the planned workload was cut short after %d cases; the region, route and probe quotas decide the verdict" % (prop, cap, evaluations))
    print("%s %s tier=%s seed=%s cases=%d distinct=%d clause_evals=%d known=%d wall=%.1fs" % (
        prop, verdict.upper(), tier, args.seed, evaluations, distinct, ev["coverage"]["oracle_clause_evaluations"],
        len(known_hits), wall))
    return 1 if unknown else (2 if inconclusive else 0)


def _jsonable(x):
    import math
    if isinstance(x, dict):
        return {str(k): _jsonable(v) for k, v in x.items()}
    if isinstance(x, (list, tuple, set)):
        return [_jsonable(v) for v in x]
    if isinstance(x, np.ndarray):
        return _jsonable(x.tolist())
    if isinstance(x, (np.floating, np.integer, np.bool_)):
        return _jsonable(x.item())
    if isinstance(x, float) and not math.isfinite(x):
        return repr(x)
    if isinstance(x, complex):
        return repr(x)
    return x


# --------------------------------------------------------------------------
def replay(args):
    import_ahrs()
    mod = load_module(args.prop)
    with open(args.replay) as f:
        d = json.load(f)
    case = Case.from_json(d["case"])
    if hasattr(mod, "setup"):
        from . import probes
        mod.setup(probes.Probes())
    ctx = Ctx()
    ctx.begin(case)
    mod.check(case, ctx)
    known = core.load_known()
    bad = 0
    for v in ctx.viols:
        e = core.match_known(known, args.prop, v)
        if e is not None:
            print("KNOWN-FINDING: property=%s %s" % (args.prop, e["what"]))
            continue
        bad += 1
        print("VIOLATION property=%s replay=%s  # route=%s clause=%s region=%s residual=%r tol=%r detail=%s" % (
            args.prop, args.replay, v.route, v.clause, v.region, v.residual, v.tol, json.dumps(core.brief(v.detail))[:400]))
    if not bad:
        print("%s replay: no violation (%d clause evaluations)" % (args.prop, sum(c[0] for c in ctx.clauses.values())))
    return 1 if bad else 0


def main(argv=None):
    ap = argparse.ArgumentParser()
    ap.add_argument("prop")
    ap.add_argument("--tier", default=os.environ.get("VERIF_TIER") or "quick", choices=["quick", "thorough"])
    ap.add_argument("--seed", type=int, default=int(os.environ.get("VERIF_SEED") or 0))
    ap.add_argument("--replay")
    ap.add_argument("--child", action="store_true")
    ap.add_argument("--shard", type=int, default=0)
    ap.add_argument("--nshards", type=int, default=1)
    ap.add_argument("--out")
    ap.add_argument("--time-cap", default="600")
    args = ap.parse_args(argv)
    if args.child:
        return child(args)
    if args.replay:
        return replay(args)
    return parent(args)


if __name__ == "__main__":
    sys.exit(main())
