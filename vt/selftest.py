"""Mutation self-validation: does each check notice realistic property-breaking edits?

    python -m vt.selftest [--only C12] [--ids id1,id2] [--jobs 8] [--tier quick] [--no-suite]

For every entry of mutants/mutants.json a scratch copy of /repo (ahrs + tests)
is made under $TMPDIR (outside /repo and /verif), the textual edit is applied,
the repository test-suite is run on it (a mutant the suite kills is marked
'suite-killed'), then the property's check is run with AHRS_TREE=<scratch> and
must exit 1 with a VIOLATION line.  The scratch tree is removed afterwards.
Results go to mutants/results.json (documentation; not evidence)."""
import argparse
import concurrent.futures as cf
import json
import os
import shutil
import subprocess
import sys
import tempfile
import time

from .core import VERIF

REPO = "/repo"


def apply_edit(root, m):
    for e in m.get("edits", []):
        apply_edit(root, dict(e, file=e.get("file", m.get("file"))))
    if "old" not in m:
        return
    path = os.path.join(root, m["file"])
    with open(path, newline="") as f:
        s = f.read()
    old, new = m["old"], m["new"]
    if "\r\n" in s:      # CRLF source file: patterns are written with LF
        old, new = old.replace("\r\n", "\n").replace("\n", "\r\n"), new.replace("\r\n", "\n").replace("\n", "\r\n")
    n = s.count(old)
    occ = m.get("occurrence")
    if n == 0:
        raise RuntimeError("pattern not found")
    if occ is None:
        if n != 1:
            raise RuntimeError("pattern occurs %d times; give 'occurrence'" % n)
        s = s.replace(old, new)
    else:
        parts = s.split(old)
        s = old.join(parts[:occ + 1]) + new + old.join(parts[occ + 1:])
    with open(path, "w", newline="") as f:
        f.write(s)


def run_one(m, tier, suite, seed):
    t0 = time.time()
    root = tempfile.mkdtemp(prefix="vt-mut-")
    res = {"id": m["id"], "property": m["property"]}
    try:
        shutil.copytree(os.path.join(REPO, "ahrs"), os.path.join(root, "ahrs"))
        shutil.copytree(os.path.join(REPO, "tests"), os.path.join(root, "tests"))
        try:
            apply_edit(root, m)
        except Exception as e:
            res["status"] = "edit-failed: %s" % e
            return res
        env = dict(os.environ, PYTHONPATH=root, PYTHONDONTWRITEBYTECODE="1")
        if suite:
            p = subprocess.run(["/venv/bin/python", "-m", "pytest", "-q", "-x", "-p", "no:cacheprovider", "tests"], cwd=root, env=env,
                               capture_output=True, text=True, timeout=900)
            res["suite_passes"] = p.returncode == 0
            if p.returncode != 0:
                res["suite_tail"] = p.stdout.strip().splitlines()[-1:] if p.stdout else []
        props = m["property"] if isinstance(m["property"], list) else [m["property"]]
        res["checks"] = {}
        for prop in props:
            env2 = dict(os.environ, AHRS_TREE=root, VERIF_SEED=str(seed), VERIF_NO_EVIDENCE="1")
            p = subprocess.run([os.path.join(VERIF, "check"), prop, "--tier", tier], cwd=VERIF, env=env2, capture_output=True, text=True, timeout=3600)
            lines = [ln for ln in p.stdout.splitlines() if ln.startswith("VIOLATION")]
            res["checks"][prop] = {"exit": p.returncode, "violation_lines": len(lines), "first": (lines[0][:300] if lines else p.stdout.strip()[-300:])}
        res["caught"] = all(c["exit"] == 1 and c["violation_lines"] > 0 for c in res["checks"].values())
        res["status"] = "caught" if res["caught"] else "MISSED"
    finally:
        shutil.rmtree(root, ignore_errors=True)
        res["wall_s"] = round(time.time() - t0, 1)
    return res


def main():
    ap = argparse.ArgumentParser()
    ap.add_argument("--only")
    ap.add_argument("--ids")
    ap.add_argument("--jobs", type=int, default=8)
    ap.add_argument("--tier", default="quick")
    ap.add_argument("--seed", type=int, default=0)
    ap.add_argument("--no-suite", action="store_true")
    a = ap.parse_args()
    with open(os.path.join(VERIF, "mutants", "mutants.json")) as f:
        muts = json.load(f)["mutants"]
    if a.only:
        muts = [m for m in muts if a.only in (m["property"] if isinstance(m["property"], list) else [m["property"]])]
    if a.ids:
        ids = set(a.ids.split(","))
        muts = [m for m in muts if m["id"] in ids]
    results = []
    with cf.ThreadPoolExecutor(a.jobs) as ex:
        for r in ex.map(lambda m: run_one(m, a.tier, not a.no_suite, a.seed), muts):
            results.append(r)
            print("%-38s %-14s suite_passes=%-5s %s" % (r["id"], r.get("status"), r.get("suite_passes"),
                                                         "; ".join("%s exit=%s n=%s" % (k, v["exit"], v["violation_lines"]) for k, v in r.get("checks", {}).items())), flush=True)
    out = os.path.join(VERIF, "mutants", "results.json")
    prev = {}
    if os.path.exists(out):
        with open(out) as f:
            prev = {r["id"]: r for r in json.load(f)["results"]}
    for r in results:
        prev[r["id"]] = r
    with open(out, "w") as f:
        json.dump({"results": sorted(prev.values(), key=lambda r: r["id"])}, f, indent=1)
    missed = [r["id"] for r in results if r.get("status") != "caught"]
    print("%d mutants, %d caught, missed: %s" % (len(results), len(results) - len(missed), missed))
    return 1 if missed else 0


if __name__ == "__main__":
    sys.exit(main())
