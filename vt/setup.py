"""setup_cmd: offline, nothing to fetch or build.  Validates known_findings.json,
imports every property module (syntax check) and confirms the interpreter and
numpy the checks will use."""
import importlib
import os
import sys

from . import core


def main():
    known = core.load_known()
    props = sorted(f[:-3] for f in os.listdir(os.path.join(core.VERIF, "vt", "props")) if f.startswith("C") and f.endswith(".py"))
    for p in props:
        importlib.import_module("vt.props." + p)
    import numpy
    os.makedirs(os.path.join(core.VERIF, "evidence"), exist_ok=True)
    os.makedirs(os.path.join(core.VERIF, "replays"), exist_ok=True)
    print("vt setup ok: python %s numpy %s, %d property modules, %d known-finding entries (%d known, %d fixed)" % (
        sys.version.split()[0], numpy.__version__, len(props), len(known),
        sum(e["status"] == "known" for e in known), sum(e["status"] == "fixed" for e in known)))


if __name__ == "__main__":
    main()
