"""Concurrent-thread workload with yield injection.

run(thunks, seed): every thunk runs in its own thread; a trace function installed in each worker yields the interpreter
(time.sleep(0)) at a seeded random third of the statement boundaries executed inside the tree under test, and the switch
interval is 1 microsecond, so thread switches land inside the library's functions and not only between calls.
Returns (outcomes, stats): outcomes[j] = ("ok", value) or ("exc", "Type: message"); stats = yields injected.
The library documents no state shared between calls or instances, so the oracle is always: equal to the isolated run."""
import os
import sys
import threading
import time

import numpy as np

STATS = {"runs": 0, "yields": 0}


def run(thunks, seed, density=0.33, timeout=300):
    root = os.path.realpath(os.environ.get("AHRS_TREE", "/repo"))
    k = len(thunks)
    out = [None] * k
    yields = [0] * k
    gate = threading.Barrier(k)

    def work(j):
        r_ = np.random.Generator(np.random.PCG64(int(seed) + 7919 * j))
        coins = r_.random(4096) < density
        n_ = [0]

        def line_tracer(frame, event, arg):
            if event == "line":
                n_[0] += 1
                if coins[n_[0] % 4096]:
                    yields[j] += 1
                    time.sleep(0)
            return line_tracer

        def tracer(frame, event, arg):
            return line_tracer if frame.f_code.co_filename.startswith(root) else None
        try:
            gate.wait()
            sys.settrace(tracer)
            v = thunks[j]()
            sys.settrace(None)
            out[j] = ("ok", v)
        except Exception as e:      # noqa: BLE001
            sys.settrace(None)
            out[j] = ("exc", "%s: %s" % (type(e).__name__, str(e)[:100]))
    old = sys.getswitchinterval()
    sys.setswitchinterval(1e-6)
    try:
        ths = [threading.Thread(target=work, args=(j,)) for j in range(k)]
        for th in ths:
            th.start()
        for th in ths:
            th.join(timeout)
    finally:
        sys.setswitchinterval(old)
    STATS["runs"] += 1
    STATS["yields"] += sum(yields)
    return out, sum(yields)
